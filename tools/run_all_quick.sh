#!/bin/sh
# runs every claimed check's quick tier once, sequentially; summary to stdout
cd "$(dirname "$0")/.."
for p in C01 C03 C04 C05 C06 C10 C11 C12 C13 C14 C15 C16 C17 C18 C19 C20; do
  s=$(date +%s)
  ./check "$p" --tier quick > "/tmp/quick_$p.log" 2>&1
  rc=$?
  e=$(date +%s)
  echo "$p exit=$rc wall=$((e-s))s $(grep "^\[$p\] tier" /tmp/quick_$p.log | cut -c1-150)"
done
