#!/bin/sh
# usage: try_seed.sh <seed dir> <ID> [runner args...]  : apply the seed to /repo, run the check, undo
S=$1; ID=$2; shift 2
git -C /repo apply "$(realpath "$S")/patch.diff" || exit 9
( cd /verif && ./check "$ID" "$@" ) ; rc=$?
git -C /repo checkout -- .
echo "exit=$rc"
