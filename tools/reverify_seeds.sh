#!/bin/sh
# usage: tools/reverify_seeds.sh [seed ...]   — re-run, for every stored seed (default: all), the cube group that is recorded to
# catch it, against a scratch worktree with the seed applied (never /repo).  Prints "<seed> CAUGHT|MISSED".
cd "$(dirname "$0")/.."
only() {
case "$1" in
 C01-1) echo "entit";; C01-2) echo "parse_params";; C01-3) echo "im";; C01-4) echo "compute_path";;
 C03-1) echo "#EXPR";; C03-2) echo "PAD";; C03-3) echo "FULLURL";;
 C04-1) echo "=and";; C04-2) echo "chain";; C04-3) echo "root=not";;
 C05-1) echo "shape ul-stray";; C05-2) echo "shape none(none";; C05-3) echo "shape heading";; C05-4) echo "fix_region_list_tables";;
 C06-1) echo "pass#13";; C06-2) echo "shape late-table2x2";; C06-3) echo "shape spacepre";; C06-4) echo "shape table-caps";;
 C10-1) echo "step, window 3, mid text after";; C10-2) echo "whole text";; C10-3|C10-4) echo "right after a dropped";;
 C11-1|C11-2|C11-3) echo "co";;
 C12-1) echo "runs[";; C12-2) echo "plain-with-colon";; C12-3) echo "names[pt]";; C12-4) echo "struct[en] names 0";;
 C13-1|C13-2) echo "round trip";; C13-3) echo "sparse";; C13-4) echo "extra key";;
 C14-1|C14-2|C14-4) echo "lookup";; C14-3) echo "fs_escape";;
 C15-*) echo "one[";;
 C16-1|C16-3) echo "nf1";; C16-2) echo "handoff";;
 C17-1) echo "nf1";; C17-2) echo "nf2";; C17-3) echo "order";;
 C18-1) echo "nf1";; C18-2) echo "readd";; C18-3|C18-4) echo "drop k=";;
 C19-1) echo "filename";; C19-2|C19-3) echo "status[";;
 C20-1) echo "[status]";; C20-2) echo "[create_zip]";; C20-3) echo "[download]";;
 *) echo "";;
esac
}
[ $# -gt 0 ] || set -- $(ls seeded)
for s in "$@"; do
  s=$(basename "$s"); id=${s%%-*}; o=$(only "$s")
  if [ -n "$o" ]; then out=$(tools/try_seed_wt.sh "seeded/$s" "$id" --tier quick --only "$o" 2>&1); else out=$(tools/try_seed_wt.sh "seeded/$s" "$id" --tier quick 2>&1); fi
  n=$(echo "$out" | grep -c '^VIOLATION')
  if [ "$n" -gt 0 ]; then echo "$s CAUGHT ($n VIOLATION lines; --only '$o')"; else echo "$s MISSED (--only '$o') $(echo "$out" | tail -1)"; fi
done
