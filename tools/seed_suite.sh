#!/bin/sh
# usage: seed_suite.sh <seed dir>...   — apply each seed to a scratch worktree of /repo and run the pinned test suite there
# (the hanging tests/qs/test_proc.py and the baseline-failing odfwriter module are left out, as in the baseline count of 696)
for S in "$@"; do
  S=$(realpath "$S"); WT=/tmp/wt_suite_$$
  git -C /repo worktree add -q --detach "$WT" HEAD || exit 9
  ( cd /repo && find src -name "*.so" ) | while read f; do cp "/repo/$f" "$WT/$f"; done
  git -C "$WT" apply "$S/patch.diff" || { git -C /repo worktree remove --force "$WT"; echo "$S: patch does not apply"; continue; }
  if grep -q "_uscan.cc" "$S/patch.diff"; then  # the scanner is compiled: rebuild it from the patched source
    INC=$(/venv/bin/python -c "import sysconfig;print(sysconfig.get_paths()['include'])")
    SO=$(ls "$WT"/src/mwlib/parser/token/_uscan*.so)
    g++ -O1 -shared -fPIC -w -I "$INC" "$WT/src/mwlib/parser/token/_uscan.cc" -o "$SO" || echo "$S: scanner rebuild failed"
  fi
  r=$(cd "$WT" && PYTHONPATH="$WT/src" /venv/bin/python -m pytest -q -p no:cacheprovider --timeout=300 --deselect tests/qs/test_proc.py --ignore=tests/mwlib/test_odfwriter.py 2>&1 | tail -1)
  echo "$(basename $S): $r"
  git -C /repo worktree remove --force "$WT"
done
