#!/bin/sh
# usage: process_seed5.sh <ID> [runner args]  — take a round-5 agent's deliverables from /tmp/seed5_<ID>/_seed, confirm them
# (patch applies to /repo HEAD in a scratch worktree, pinned suite passes, demo fails with / passes without) and run the check.
ID=$1; shift
SRC=/tmp/seed5_$ID/_seed; DST=/verif/seeded/$ID-5
mkdir -p $DST && cp $SRC/patch.diff $SRC/demo.py $DST/ && cp $SRC/notes.txt $DST/notes.md 2>/dev/null
echo "== demo without change"; PYTHONPATH=/repo/src /venv/bin/python $DST/demo.py >/dev/null 2>&1; echo "exit=$?"
WT=/tmp/wt_demo_$$; git -C /repo worktree add -q --detach $WT HEAD
( cd /repo && find src -name "*.so" ) | while read f; do cp "/repo/$f" "$WT/$f"; done
git -C $WT apply $DST/patch.diff && { echo "== demo with change"; PYTHONPATH=$WT/src /venv/bin/python $DST/demo.py >/tmp/demo_out_$$ 2>&1; echo "exit=$?"; tail -3 /tmp/demo_out_$$; rm -f /tmp/demo_out_$$; }
git -C /repo worktree remove --force $WT
echo "== suite with change"; /verif/tools/seed_suite.sh $DST
echo "== check"; /verif/tools/try_seed_wt.sh $DST $ID --tier quick "$@" 2>&1 | grep -E "VIOLATION|KNOWN|exit=|verdict|INCONCL|error" | head -20
