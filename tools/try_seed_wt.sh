#!/bin/sh
# usage: try_seed_wt.sh <seed dir> <ID> [runner args...]
# Like try_seed.sh but never touches /repo: the seed is applied to a scratch worktree and the check is pointed at it
# (VERIF_REPO + PYTHONPATH), so background runs against /repo are not disturbed. Evidence is NOT meaningful for /repo
# after this (the evidence file of <ID> is restored afterwards).
S=$(realpath "$1"); ID=$2; shift 2
WT=/tmp/wt_seed_$$
git -C /repo worktree add -q --detach "$WT" HEAD || exit 9
( cd /repo && find src -name "*.so" ) | while read f; do cp "/repo/$f" "$WT/$f"; done
git -C "$WT" apply "$S/patch.diff" || { git -C /repo worktree remove --force "$WT"; exit 9; }
case " $* " in *" --only "*) KEEP=0;; *) KEEP=1;; esac   # with --only the runner writes no evidence: nothing to protect
[ $KEEP = 1 ] && cp /verif/evidence/$ID.json /tmp/evidence_$ID.$$.json 2>/dev/null
[ $KEEP = 1 ] && for t in quick thorough; do cp /verif/evidence_by_tier/$t/$ID.json /tmp/evidence_${t}_$ID.$$.json 2>/dev/null; done
( cd /verif && VERIF_REPO="$WT" PYTHONPATH="$WT/src" ./check "$ID" "$@" ); rc=$?
[ $KEEP = 1 ] && cp /tmp/evidence_$ID.$$.json /verif/evidence/$ID.json 2>/dev/null; rm -f /tmp/evidence_$ID.$$.json
[ $KEEP = 1 ] && for t in quick thorough; do cp /tmp/evidence_${t}_$ID.$$.json /verif/evidence_by_tier/$t/$ID.json 2>/dev/null; rm -f /tmp/evidence_${t}_$ID.$$.json; done
git -C /repo worktree remove --force "$WT"
echo "exit=$rc"
