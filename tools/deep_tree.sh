#!/bin/sh
# usage: tools/deep_tree.sh [budget seconds]   — one long exploration of all container pairs of the tree-cleaner catalogue,
# judged by the C05 and the C06 oracles at once (bug hunting; the registered checks stay ./check C05 / ./check C06)
cd "$(dirname "$0")/.."
VERIF_TREE_BOTH=1 VERIF_BUDGET=${1:-4800} ./check C06 --tier thorough --only "shape " > deep_tree.log 2>&1
echo "exit=$?"; grep -v "^INCONCLUSIVE" deep_tree.log | tail -20
