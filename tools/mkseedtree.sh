#!/bin/sh
# usage: mkseedtree.sh <ID>   -> scratch worktree /tmp/seed_<ID> of /repo HEAD (with the compiled extension modules copied in)
set -e
ID=$1
D=/tmp/seed_$ID
[ -d "$D" ] || git -C /repo worktree add -q --detach "$D" HEAD
( cd /repo && find src -name "*.so" ) | while read f; do cp "/repo/$f" "$D/$f"; done
mkdir -p "$D.out"
python3 - "$ID" <<'PY'
import json, sys
pid = sys.argv[1]
for l in open('/verif/properties.jsonl'):
    d = json.loads(l)
    if d['id'] == pid:
        open(f"/tmp/seed_{pid}.out/property.txt", "w").write(
            f"{d['id']}: {d['title']}\n\nStatement: {d['statement']}\n\nQuantifier: {d['quantifier']['text']}\n\n"
            f"Why the tests cannot settle it: {d['why_tests_cant']}\n\nAnchors (files): {', '.join(d['anchors']['files'])}\n"
            f"Mechanisms: {json.dumps(d['anchors']['mechanism'])}\nObserve at: {'; '.join(d['anchors'].get('observe_at', []))}\n")
PY
echo "$D"
