#!/bin/sh
# usage: tools/run_thorough.sh ID...   (sequentially; prints a one-line summary per check)
cd "$(dirname "$0")/.."
for p in "$@"; do
  s=$(date +%s)
  ./check "$p" --tier thorough > "thorough_$p.log" 2>&1
  rc=$?
  e=$(date +%s)
  echo "$p exit=$rc wall=$((e-s))s $(grep "^\[$p\] tier" thorough_$p.log | cut -c1-160)"
done
