#!/usr/bin/env python3
"""Writes MANIFEST.json from the table below (kept as code so that notes stay next to the checks)."""
import json

CLAIMED = {}
NA = {}


def claim(pid, category, text, note, technique, design):
    CLAIMED[pid] = dict(category=category, text=text, note=note, technique=technique, design=design)


claim("C15", "other",
      "Bounded symbolic execution of the real extractall/extract_member: member names are symbolic strings (alphabet ./\\ad, "
      "one name <= 6 chars quick / 8 thorough, two names <= 3 / 4), three to five spellings of the destination; z3 decides every "
      "branch and the path tree is exhausted, so within the bound no name makes a file-system mutator receive a path outside the destination. "
      "Counterexamples are replayed with a real zip on a real file system inside a chroot sandbox.",
      "Model FS in the nuwiki namespace (os/open recorded), stdlib pure-Python normpath instead of the C one, no symlinks; names beyond the bound/alphabet are outside the claim.",
      "SMT-backed symbolic execution (CrossHair/z3), exhaustive within stated bounds, concrete replay", "§4 C15")
claim("C16", "model_checking",
      "Bounded model checking by symbolic execution of the real qs.jobs.workq / qs.qserve.QPlugin under a deterministic scheduler stub: "
      "operation kinds, arguments (worker, channel set, job, priority, timeout, clock delta) and scheduling choices are z3 integers; "
      "all histories of <= 3 operations over the full alphabet and <= 4 over the hand-off alphabet (quick; 4 / 5 thorough) from the empty queue are covered "
      "(path tree exhausted per cube); conservation is judged by draining the queue through the public API. The full alphabet includes re-adding a (killed) id. Counterexamples are replayed on the unmodified modules and under real gevent.",
      "Scheduler stub = gevent's cooperative semantics (atomic between blocking calls, set() only makes runnable, kill raises at the blocking point); logging compiled out in the symbolic run; histories longer than the bound are outside.",
      "bounded model checking via SMT-backed symbolic execution (CrossHair/z3) with symbolic schedules", "§4 C16")

claim("C01", "other",
      "Bounded symbolic execution of the parser's numeric/entity conversion kernels (resolve_entity, replace_html_entities, styleanalyzer.compute_path, "
      "image-modifier width/upright, parse_params, _ensure_int, <pages from= to=> range generation) on symbolic integers and short strings; any exception or "
      "work beyond 1000+16*len(input) is a candidate, which only counts after it has been embedded in an article and reproduced through uparser.parse_string.",
      "Kernels only: the compiled scanner and the 20 regex-driven refinement passes are outside (a symbolic article realizes at the first C call); strings marked 'pinned' are enumerated by the solver, not generalised.",
      "SMT-backed symbolic execution (CrossHair/z3) of leaf kernels, lifted and replayed through the public parser", "§4 C01")
claim("C12", "other",
      "Bounded symbolic execution of NsHandler.splitname per bundled site: free titles (<= 3 chars quick / 4 thorough over separators, bidi marks, letters with non-trivial case "
      "mappings) and structured spellings lead ':'? NAMESPACE(every local/canonical/alias name, three casings) sep ':' mid rest; oracles: idempotence, canonical "
      "prefix+remainder form, site's namespace number, spelling invariance against a reference normaliser.",
      "Title characters are pinned by the solver and then concretised (z3's sequence theory decides strip/replace/regex too slowly): the bounded space is enumerated exhaustively by the solver, without relational generalisation; quick tier covers en+de in full and every namespace name of the other ten bundled sites in three casings, thorough all 12 sites in full.",
      "SMT-driven exhaustive symbolic execution (CrossHair/z3) with pinned strings, concrete replay", "§4 C12")
claim("C17", "model_checking",
      "Bounded model checking by symbolic execution against a reference model of the queue: histories of <= 3 operations over the full alphabet (add, pull, run, finish, kill, tick, "
      "disconnect, wait, re-add, watchdog), <= 4 over the ordering alphabet and over the qdrop alphabet (add, drop, wait, kill), and normal-form prefixes (1 job in any of 11 stages + 2 symbolic operations, 2 jobs + 1) with symbolic "
      "priorities, timeouts, clock steps and scheduling choices; every rpc_* answer and rpc_qinfo/rpc_getstats snapshot is compared with the reference.",
      "Reference model and scheduler stub in vlib/stubs/qsim.py are trusted; ordering complaints only count once the better job is later seen to come out of the queue; histories beyond the bound are outside.",
      "bounded model checking via SMT-backed symbolic execution (CrossHair/z3) against a reference model", "§4 C16-C18")
claim("C18", "model_checking",
      "Bounded model checking by symbolic execution: histories with a stop/restart step (state copied through the real __getstate__/__setstate__ protocol) at every position, "
      "including normal-form prefixes (job queued / handed over / pulled / finished / killed / timed out / dropped) followed by restart and symbolic operations, and dedicated alphabets for re-added ids and for jobs marked by qdrop; after the restart the "
      "conservation, ordering and finality oracles of C16/C17 plus result/error/info persistence, fresh ids and immediate wait are checked.",
      "pickle is modelled by copy.deepcopy in the symbolic run (same reduce/getstate/setstate protocol); replays use real pickle protocol 2; statistics counters are not part of C18.",
      "bounded model checking via SMT-backed symbolic execution (CrossHair/z3) with a restart step at every position", "§4 C16-C18")
claim("C20", "fault_enumeration",
      "Fault enumeration driven symbolically: the real publish code of Status.dump, ZipCreator.create_zip, make_zip, download_with_retries and render.main runs against a model file "
      "system; crash step, partial-flush length, injected-error step and errno are z3 integers; after every crash or I/O error the final path must be absent, the previous version or the "
      "complete new version. Counterexamples are replayed with real files and a real process kill (os._exit at the file-system call).",
      "Model FS semantics (write buffers in user space, flush/close durable, rename atomic, open('w') truncates) are trusted; zip/PDF writers and the HTTP client are stubs emitting m chunks; no power-loss/fsync reasoning.",
      "symbolic fault enumeration (CrossHair/z3) over a model file system, real-process replay", "§4 C20")

claim("C19", "model_checking",
      "Bounded model checking by symbolic execution of the real do_render_status bound in-process to a real queue: every combination of 10 stages of the requested writer's render job, "
      "10 stages of the makezip job, 4 stages of another writer's render job, 5 writers, symbolic result size and error/no-error finishes, each stage reached through real rpc_* calls; "
      "the reported state/error/status/url is compared with the history. Content-Disposition: file names of <= 2 (quick) / 3 (thorough) characters over one representative per NFKD->ASCII class.",
      "rpcclient.ServerProxy replaced by an in-process call with a deep copy as transport; info/url tokens are fixed (only identity matters); an error of '' counts as no error; HTTP layer outside.",
      "bounded model checking via SMT-backed symbolic execution (CrossHair/z3) over job-stage combinations", "§4 C19")

claim("C05", "other",
      "Bounded symbolic execution: documents composed from a catalogue of 31 containers x 39 leaves (C1(C2(L1) L2); every C1 with C2=none plus 15 pairs quick, all pairs and a third leaf thorough; well-formed and malformed blocks, content inside headings / captions / pre lines, "
      "leaves with two nesting violations) and 'sized' leaves just above each size threshold harvested from the cleaner's source are "
      "parsed by the real parser, build_advanced_tree runs, then every cleaning pass in order; the repository's own validators run after the build and after every single pass, and the container "
      "contract after the full sequence. In the attribute cubes one node's id / class / style value are symbolic strings injected right before each attribute-sensitive pass.",
      "Fragment choices are enumerated by the solver (pinned), only the attribute strings are genuinely symbolic; tree shapes outside the fragment grammar are outside the claim; counterexamples are replayed through parse_string with the values written into the markup.",
      "SMT-backed symbolic execution (CrossHair/z3) of the cleaning passes with symbolic node attributes + solver-enumerated document shapes, validators as oracle", "§4 C05")
claim("C06", "other",
      "Bounded symbolic execution of each TreeCleaner pass, called directly in cleaner_methods order (not through the catch-all): same documents as C05; for each of the passes whose code reads node "
      "attributes (computed from the current source, 22 today) the id, class and one style declaration of one node are symbolic strings, so z3 itself produces the values that switch a pass on "
      "('region_list', 'overflow:auto'); any exception, an ERROR report, or more than 4n^2+8 iterations of a fixed-point helper is a candidate, replayed through the real parser.",
      "Document shapes limited to the fragment grammar (31 x 39 fragments + sized leaves; the thorough tier's all-pairs cubes found the fix_paragraphs crash the property text mentions, fixed in 9d90b39); "
      "string-heavy passes (remove_no_print_nodes, remove_absolute_positioned_node, remove_scroll_elements) do not exhaust within the quick budget and are reported INCONCLUSIVE.",
      "SMT-backed symbolic execution (CrossHair/z3) per pass with symbolic node attributes, concrete replay through the parser", "§4 C06")

claim("C03", "other",
      "Bounded symbolic execution of the magic-word / parser-function dispatch: for every name registered on MagicResolver (taken from the class at run time, 89 today) the arguments "
      "(0..2 quick / 0..3 thorough; free strings and numerals rendered from symbolic integers in five shapes) are z3 variables; any exception, a loop trip count or an output longer than "
      "1000+16*len(call) is a candidate. #expr/#ifexpr are additionally driven at token level (tokenizer regex stubbed) so that numbers stay symbolic through the real shunting-yard and "
      "operator functions. Template universes with arbitrary call graphs (2 / 3 templates) are expanded for the recursion guard. Candidates are replayed as wikitext through the real compiled Expander under CPU/memory limits.",
      "templ/*.pyx are loaded from source as Python so that they can be traced; the wikitext->node-tree parser (templ/parser.py, scanner.py, pp.py) and #time are outside; template universes are enumerated by the solver and expanded untraced; many cubes of string-heavy functions end INCONCLUSIVE within the quick budget.",
      "SMT-backed symbolic execution (CrossHair/z3) of the dispatch with symbolic arguments and a work-bound oracle; replay through the compiled expander", "§4 C03")

claim("C04", "other",
      "Bounded symbolic differential checking of integer #expr: expression trees of depth <= 2 (quick) / 3 (thorough) whose operator in every slot (+ - * mod = != < > <= >= and or not abs unary-minus), "
      "single-digit literals and parenthesisation (minimal by the documented precedence / left association, or fully parenthesised) are z3 variables, are serialised to the tokenizer's token list and "
      "evaluated by the real Expr.parse_expr; the value must equal a reference evaluator's on every path (240 cubes sharded by root and left operator, all exhausted in the quick tier). Counterexamples are replayed as '{{#expr: ...}}' through the real Expander.",
      "The tokenizer regex is stubbed by its token list; floats (/, div, ^, round, floor, ceil, trunc, decimals) are outside (CrossHair models floats as reals); the binding / trimming / #if / #ifeq / #switch half of the property is NOT covered by this revision (the wikitext->node-tree parser is regex driven).",
      "SMT-backed symbolic differential execution (CrossHair/z3) against a reference evaluator", "§4 C04")

claim("C13", "other",
      "Bounded symbolic execution of the typed-object <-> JSON-value mapping (MetabookObject.__init__/_json, myjson.object_hook, MbEncoder.default) on collections with symbolic shape (0..3 items: "
      "articles, chapters with nested articles, unknown extra attributes), symbolic titles (<= 3 chars), revisions and optional fields: round trip, fixed point, per-instance default lists, and "
      "value-level injectivity for pairs differing in exactly one title / revision / order / item / revision presence. Collection id: nserve.make_collection_id is executed with sha256 replaced by a "
      "recorder of the hashed text on pairs of requests that differ in at most one field (base_url / script_extension symbolic strings <= 2 chars over quotes, backslash and a letter; login absent or "
      "<= 1 char; metabook one of 13 JSON texts in 9 content classes: key order, whitespace, re-serialization, undeclared attributes, revision, title, order, nesting) or in two adjacent fields: the "
      "hashed texts are equal iff the requests are. All cubes exhaust.",
      "The JSON text layer (simplejson C codec) is modelled as identity on JSON values for the round-trip cubes; SHA-256 and its truncation are assumed collision-free (the replay compares real ids); metabook texts in the id cubes are concrete.",
      "SMT-backed symbolic execution (CrossHair/z3) of the object layer with the text codec modelled as identity on JSON values", "§4 C13")

claim("C14", "other",
      "Bounded symbolic execution of the archive writer (FsOutput.write_pages / write_expanded_page) against the reader (NuWiki._read_revisions / _get_page / normalize_and_get_page) over an in-memory "
      "revisions file: page texts built from every fragment of the record separator (how a text may start after the header's newline, how it may end in front of the next record), both writers, both "
      "revision-id orders; three pages with two revisions of one title in every write order and id order, optional redirect; fs_escape shown decodable (hence injective) on titles <= 3 / 5 chars over "
      "the property's alphabet; image-name spellings (namespace alias, case, separators) map to one file name.",
      "zip / sqlite / symlink I/O is not executed (in-memory file through nuwiki.open / os.path.exists stubs); texts and titles are pinned (enumerated by the solver) because simplejson's C encoder and the C regex/strip code cannot take symbolic values; the boundary collision of the record format is a recorded known finding.",
      "SMT-driven exhaustive symbolic execution (CrossHair/z3) of writer against reader on separator-fragment texts; real-directory replay", "§4 C14")

claim("C11", "other",
      "Bounded symbolic execution of the fetcher's data kernels: MwApi._do_request's continuation loop and result merging against a synthetic wiki whose batch cut points are z3 integers (0..5 pages, "
      "three cuts, a server repeating its token must not cause a loop; 1..3 / 4 pages whose image lists are split over consecutive batches at four symbolic cuts), MwApi.get_contributors (names from a list incl. bot names, symbolic anonymous counts, chunk cut, redirect), the path "
      "Fetcher.get_edits -> _lookup_contributors -> authors store (what is stored under the plain / mapped title must be what the API reported) and split_blocks / get_block. All five cubes exhaust.",
      "Kernels only: which pages and images get scheduled (closure over templates), redirect resolution, revision selection, image download, missing-page tolerance, greenlet interleavings and --no-images are NOT encoded; a change there is invisible to this check.",
      "SMT-backed symbolic execution (CrossHair/z3) of data kernels with a synthetic-wiki stub", "§4 C11")

claim("C10", "translation_validation",
      "The re2c-generated C++ scanner (_uscan.cc: enum, Scanner::found/bol/eol/newline, Scanner::scan with ~280 DFA states) is transpiled to Python from the current file on every run and executed symbolically: "
      "whole texts of 0..2 (quick) / 0..3 (thorough) arbitrary code points plus 18 rule-head prefixes followed by symbolic code points must satisfy the tiling law verbatim, and an inductive one-step contract "
      "(one scan() call on a window of 3 / 5 symbolic code points from a symbolic scanner state: previous two characters, last token type, a dropped U+EBAD between the last two tokens or directly before start, tablemode >= 0, rowchar, pending section marker) must re-establish the "
      "representation invariant with no read beyond the 32 sentinels. z3 decides every character-class comparison of the DFA, so a path stands for a class of inputs. The transpiled scanner is validated against a fresh "
      "g++ build of the same file on the string literals of the repository's scanner/parser tests and on every solver model; one-step counterexamples are lifted through constructed histories (table openings, heading start) before they count.",
      "The transpiler (vlib/re2c_transpile.py) understands exactly the C subset the file uses and refuses anything else (harness error); look-ahead beyond the window after the concrete prefixes and texts longer than the bound in the whole-text cubes are outside.",
      "translation validation (C++ -> Python, checked against a fresh build) + SMT-backed symbolic execution (CrossHair/z3) of the transpiled DFA: tiling law and inductive step contract", "§4 C10")

NA["C02"] = "structure law over the C++ scanner + 20 regex-driven passes: symbolic document shapes degenerate to enumerating concrete documents, no solver-decided bound of interest (DESIGN §5)"
NA["C07"] = "losslessness is a law about document shapes x pass interactions: word identity, not word content, matters, so nothing in it is solver-relevant; making the shape symbolic degenerates into enumerating concrete documents (measured: the full 58-pass sequence under the tracer costs 0.7-4 s per path and no symbolic value reaches a branch), which is not this technique (DESIGN §4 C07)"
NA["C08"] = "reportlab / odfpy / pdftk do the essential work (C code, floats, external processes); every input realizes immediately, nothing for a solver to decide (DESIGN §5)"
NA["C09"] = "protection is done by backtracking regexes in CPython's C re engine (named back-reference, look-behind, lazy quantifiers): unsupported by CrossHair's regex model and by z3's RegLan; a hand-written model would not be the code (DESIGN §5)"

PENDING = []


def main():
    checks = []
    for pid, c in sorted(CLAIMED.items()):
        checks.append({
            "property_id": pid,
            "quick_cmd": f"./check {pid} --tier quick",
            "thorough_cmd": f"./check {pid} --tier thorough",
            "evidence_file": f"/verif/evidence/{pid}.json",
            "replay_cmd_template": f"./check {pid} --replay {{path}}",
            "engine": "E1 CrossHair/z3 driver (vlib/ch_driver.py)",
            "level_claimed": {"category": c["category"], "text": c["text"], "design_ref": c["design"]},
            "level_note": c["note"],
            "technique": c["technique"],
        })
    na = [{"property_id": k, "reason": v} for k, v in sorted(NA.items())]
    for pid in PENDING:
        if pid not in CLAIMED and pid not in NA:
            na.append({"property_id": pid, "reason": "check not built yet in this revision of /verif (planned, see DESIGN.md §4); nothing is claimed for it"})
    m = {
        "version": 1,
        "setup_cmd": "./setup.sh",
        "hooks": {
            "guard": "MWLIB_VERIF",
            "enable": "no source hooks: stubs are injected by rebinding module-level names from the harness; the guard name is reserved and unused",
            "baseline_off_cmd": "cd /repo && /venv/bin/python -m pytest -ra -q -p no:cacheprovider --timeout=900 --continue-on-collection-errors",
            "source_commits": [],
            "add_only": True,
        },
        "engines": [
            {"name": "E1", "path": "vlib/ch_driver.py", "serves_properties": sorted(CLAIMED),
             "kind_free_text": "CrossHair 0.0.110 used as a library with our own path-exploration loop (z3 5.1): symbolic execution of the repository's own Python functions, exhaustive within stated bounds, every counterexample replayed concretely"},
        ],
        "checks": checks,
        "not_applicable": sorted(na, key=lambda x: x["property_id"]),
        "notes": "Exit codes of every check: 0 held (possibly with KNOWN-FINDING / INCONCLUSIVE lines), 1 replayed VIOLATION, 3 harness error. Repairs of genuine defects are 'fix:' commits in /repo, listed in known_findings.json under 'fixed'. The thorough tier runs under a wall budget (--budget / $VERIF_BUDGET, default 900 s per check; each cube gets a fair share, a cube cut short is reported as not exhausted); every run also leaves its evidence in evidence_by_tier/<tier>/<id>.json, evidence/<id>.json is the latest run of either tier.",
    }
    with open("MANIFEST.json", "w") as fh:
        json.dump(m, fh, indent=1)


if __name__ == "__main__":
    main()
