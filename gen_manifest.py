#!/usr/bin/env python3
"""Writes MANIFEST.json from the table below (kept as code so that notes stay next to the checks)."""
import json

CLAIMED = {}
NA = {}


def claim(pid, category, text, note, technique, design):
    CLAIMED[pid] = dict(category=category, text=text, note=note, technique=technique, design=design)


claim("C15", "other",
      "Bounded symbolic execution of the real extractall/extract_member: member names are symbolic strings (alphabet ./\\ad, "
      "one name <= 6 chars quick / 8 thorough, two names <= 3 / 4), three to five spellings of the destination; z3 decides every "
      "branch and the path tree is exhausted, so within the bound no name makes a file-system mutator receive a path outside the destination. "
      "Counterexamples are replayed with a real zip on a real file system inside a chroot sandbox.",
      "Model FS in the nuwiki namespace (os/open recorded), stdlib pure-Python normpath instead of the C one, no symlinks; names beyond the bound/alphabet are outside the claim.",
      "SMT-backed symbolic execution (CrossHair/z3), exhaustive within stated bounds, concrete replay", "§4 C15")
claim("C16", "model_checking",
      "Bounded model checking by symbolic execution of the real qs.jobs.workq / qs.qserve.QPlugin under a deterministic scheduler stub: "
      "operation kinds, arguments (worker, channel set, job, priority, timeout, clock delta) and scheduling choices are z3 integers; "
      "all histories of <= 3 operations over the full alphabet and <= 4 over the hand-off alphabet (quick; 4 / 5 thorough) from the empty queue are covered "
      "(path tree exhausted per cube); conservation is judged by draining the queue through the public API. Counterexamples are replayed on the unmodified modules and under real gevent.",
      "Scheduler stub = gevent's cooperative semantics (atomic between blocking calls, set() only makes runnable, kill raises at the blocking point); logging compiled out in the symbolic run; histories longer than the bound are outside.",
      "bounded model checking via SMT-backed symbolic execution (CrossHair/z3) with symbolic schedules", "§4 C16")

NA["C02"] = "structure law over the C++ scanner + 20 regex-driven passes: symbolic document shapes degenerate to enumerating concrete documents, no solver-decided bound of interest (DESIGN §5)"
NA["C08"] = "reportlab / odfpy / pdftk do the essential work (C code, floats, external processes); every input realizes immediately, nothing for a solver to decide (DESIGN §5)"
NA["C09"] = "protection is done by backtracking regexes in CPython's C re engine (named back-reference, look-behind, lazy quantifiers): unsupported by CrossHair's regex model and by z3's RegLan; a hand-written model would not be the code (DESIGN §5)"

PENDING = ["C01", "C03", "C04", "C05", "C06", "C07", "C10", "C11", "C12", "C13", "C14", "C17", "C18", "C19", "C20"]


def main():
    checks = []
    for pid, c in sorted(CLAIMED.items()):
        checks.append({
            "property_id": pid,
            "quick_cmd": f"./check {pid} --tier quick",
            "thorough_cmd": f"./check {pid} --tier thorough",
            "evidence_file": f"/verif/evidence/{pid}.json",
            "replay_cmd_template": f"./check {pid} --replay {{path}}",
            "engine": "E1 CrossHair/z3 driver (vlib/ch_driver.py)",
            "level_claimed": {"category": c["category"], "text": c["text"], "design_ref": c["design"]},
            "level_note": c["note"],
            "technique": c["technique"],
        })
    na = [{"property_id": k, "reason": v} for k, v in sorted(NA.items())]
    for pid in PENDING:
        if pid not in CLAIMED and pid not in NA:
            na.append({"property_id": pid, "reason": "check not built yet in this revision of /verif (planned, see DESIGN.md §4); nothing is claimed for it"})
    m = {
        "version": 1,
        "setup_cmd": "./setup.sh",
        "hooks": {
            "guard": "MWLIB_VERIF",
            "enable": "no source hooks: stubs are injected by rebinding module-level names from the harness; the guard name is reserved and unused",
            "baseline_off_cmd": "cd /repo && /venv/bin/python -m pytest -ra -q -p no:cacheprovider --timeout=900 --continue-on-collection-errors",
            "source_commits": [],
            "add_only": True,
        },
        "engines": [
            {"name": "E1", "path": "vlib/ch_driver.py", "serves_properties": sorted(CLAIMED),
             "kind_free_text": "CrossHair 0.0.110 used as a library with our own path-exploration loop (z3 5.1): symbolic execution of the repository's own Python functions, exhaustive within stated bounds, every counterexample replayed concretely"},
        ],
        "checks": checks,
        "not_applicable": sorted(na, key=lambda x: x["property_id"]),
        "notes": "Exit codes of every check: 0 held (possibly with KNOWN-FINDING / INCONCLUSIVE lines), 1 replayed VIOLATION, 3 harness error. Repairs of genuine defects are 'fix:' commits in /repo, listed in known_findings.json under 'fixed'.",
    }
    with open("MANIFEST.json", "w") as fh:
        json.dump(m, fh, indent=1)


if __name__ == "__main__":
    main()
