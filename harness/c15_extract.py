"""C15 — opening a collection archive never writes outside its extraction directory.

Real code: mwlib.core.nuwiki.extractall / extract_member (+ posixpath.join/abspath/dirname and the stdlib's
pure-Python normpath fallback).  Symbolic: the member names.  Oracle: every path handed to a file-system
mutator lies inside the destination.
"""
import os
import posixpath

from vlib.runner import CheckSpec, Cube
from vlib.sym import assume, in_alphabet

ALPHABET = "./\\ad"
DST_VARIANTS = {"abs": "/d", "abs_slash": "/d/", "rel": "d", "rel_dot": "./d/", "dotdot": "/d/a/.."}
CWD = "/"  # for the relative variants (so that "d" means "/d")

_state = {"installed": False}
REC = []  # recorded file-system mutations of the current path: (op, path)
DIRS = []  # directories created on the current path


class _Member:
    def __init__(self, filename):
        self.filename = filename


class _Zip:
    def __init__(self, names):
        self._names = names

    def infolist(self):
        return [_Member(n) for n in self._names]

    def read(self, name):
        return b"x"


def resolve(p):
    """Lexical resolution of an absolute-or-cwd-relative path on a symlink-free file system."""
    if not p.startswith("/"):
        p = CWD + p
    stack = []
    for comp in p.split("/"):
        if comp == "" or comp == ".":
            continue
        if comp == "..":
            if stack:
                stack.pop()
            continue
        stack.append(comp)
    return "/" + "/".join(stack)


def _model_isdir(p):
    r = resolve(p)
    if r == "/" or r == "/d":
        return True
    for d in DIRS:
        rd = resolve(d)
        if rd == r or rd.startswith(r + "/"):
            return True
    return False


class _PathShim:
    """os.path for the nuwiki namespace: real posixpath functions, isdir/exists answered by the model FS."""

    def __getattr__(self, name):
        return getattr(posixpath, name)

    @staticmethod
    def isdir(p):
        return _model_isdir(p)

    exists = isdir


class _OsShim:
    """`os` for the nuwiki namespace: mutators record their target instead of touching the disk."""

    path = _PathShim()

    def __getattr__(self, name):
        if name in ("makedirs", "mkdir", "symlink", "link", "rename", "replace", "mknod", "open", "remove", "unlink", "rmdir"):
            def rec(p, *a, **k):
                if name in ("makedirs", "mkdir") and _model_isdir(p) and not k.get("exist_ok"):
                    raise FileExistsError(17, "File exists", p)
                REC.append((name, p))
                if name in ("makedirs", "mkdir"):
                    DIRS.append(p)
                if name in ("rename", "replace", "symlink", "link") and a:
                    REC.append((name + ":dst", a[0]))
            return rec
        if name == "getcwd":
            return lambda: CWD
        return getattr(os, name)


class _File:
    def write(self, data):
        return len(data)

    def __enter__(self):
        return self

    def __exit__(self, *a):
        return False

    def close(self):
        pass


def _open(p, mode="r", *a, **k):
    if p.endswith("/") or _model_isdir(p):
        raise IsADirectoryError(21, "Is a directory", p)
    if not _model_isdir(posixpath.dirname(p) or "."):
        raise FileNotFoundError(2, "No such file or directory", p)
    REC.append(("open:" + mode, p))
    return _File()


def setup():
    """Install the model FS into mwlib.core.nuwiki and the pure-Python normpath into posixpath (worker only)."""
    if _state["installed"]:
        return
    import mwlib.core.metabook  # noqa: F401  (import cycle: must come first)
    from mwlib.core import nuwiki
    from vlib.purepath import pure_normpath

    for attr in ("os", "extractall", "extract_member"):
        if not hasattr(nuwiki, attr):
            raise RuntimeError(f"stub target mwlib.core.nuwiki.{attr} is gone")
    posixpath.normpath = pure_normpath()
    posixpath.os = _PosixOsProxy()
    nuwiki.os = _OsShim()
    nuwiki.open = _open
    _state["installed"] = True


class _PosixOsProxy:
    """posixpath's own `os` global: getcwd() answered by the model (abspath of a relative destination)."""

    def __getattr__(self, name):
        if name == "getcwd":
            return lambda: CWD
        return getattr(os, name)


def inside(p) -> bool:
    """Independent reference: does p (no symlinks) denote /d or something below it?"""
    r = resolve(p)
    return r == "/d" or r.startswith("/d/")


def _run(names, dst):
    from mwlib.core import nuwiki

    del REC[:]
    del DIRS[:]
    raised = None
    try:
        nuwiki.extractall(_Zip(names), dst)
    except Exception as e:  # rejection is allowed; what was written before it is still judged
        raised = type(e).__name__
    return raised


def h_one(name: str, maxlen: int, dst: str, prefix: str = ""):
    assume(len(name) <= maxlen)
    assume(in_alphabet(name, ALPHABET))
    _run([prefix + name], dst)
    for op, p in REC:
        if not inside(p):
            return {"escape": [op, p], "names": [prefix + name], "dst": dst}
    return None


def h_two(n1: str, n2: str, maxlen: int, dst: str):
    assume(len(n1) <= maxlen and len(n2) <= maxlen)
    assume(in_alphabet(n1, ALPHABET) and in_alphabet(n2, ALPHABET))
    _run([n1, n2], dst)
    for op, p in REC:
        if not inside(p):
            return {"escape": [op, p], "names": [n1, n2], "dst": dst}
    return None


def twin_reach(name: str, maxlen: int, dst: str, prefix: str = ""):
    """Reachability witness: some member IS written (inside the destination)."""
    assume(len(name) <= maxlen)
    assume(in_alphabet(name, ALPHABET))
    _run([prefix + name], dst)
    for op, p in REC:
        if op.startswith("open"):
            return {"reached": [op, p]}
    return None


def build(tier: str) -> CheckSpec:
    import mwlib.core.metabook  # noqa
    from mwlib.core import nuwiki

    cubes = []
    if tier == "quick":
        one, k, two, other, tmo = 6, 2, 3, 3, 200
        variants = ["abs", "abs_slash", "rel"]
    else:
        one, k, two, other, tmo = 8, 3, 4, 5, 1200
        variants = list(DST_VARIANTS)
    import itertools

    # main destination: names up to `one` characters, sharded on the first k characters
    cubes.append(Cube(f"one[abs] len<{k}", h_one, {"name": str}, {"maxlen": k - 1, "dst": "/d"}, timeout=tmo, group="abs"))
    for pre in itertools.product(ALPHABET, repeat=k):
        pre = "".join(pre)
        cubes.append(Cube(f"one[abs] {pre!r}+<={one-k}", h_one, {"name": str},
                          {"maxlen": one - k, "dst": "/d", "prefix": pre}, timeout=tmo, group="abs"))
    cubes.append(Cube(f"two[abs]<={two}", h_two, {"n1": str, "n2": str}, {"maxlen": two, "dst": "/d"}, timeout=tmo, group="abs"))
    # other spellings of the destination only differ in the (concrete) first line of extractall
    for v in variants:
        if v != "abs":
            cubes.append(Cube(f"one[{v}]<={other}", h_one, {"name": str}, {"maxlen": other, "dst": DST_VARIANTS[v]}, timeout=tmo, group=v))
    cubes.append(Cube("twin:some member is written", twin_reach, {"name": str}, {"maxlen": 3, "dst": "/d"}, timeout=60, role="twin"))
    return CheckSpec(
        property_id="C15",
        level="other",
        cubes=cubes,
        functions=[nuwiki.extractall, nuwiki.extract_member, posixpath.join, posixpath.abspath, posixpath.dirname,
                   (posixpath.__file__, "posixpath.normpath (pure-Python fallback)")],
        bounds={"member_name_alphabet": ALPHABET, "one_member_max_len": one, "sharded_on_first_chars": k, "two_members_max_len_each": two, "other_destination_spellings_max_len": other,
                "destinations": {k: DST_VARIANTS[k] for k in variants}, "cwd_for_relative": CWD},
        stubs=["nuwiki.os -> shim recording makedirs/mkdir/rename/... targets; os.path.isdir answered by a model FS",
               "nuwiki.open -> records (mode, path), returns a dummy file",
               "posixpath.normpath -> stdlib pure-Python fallback (C _path_normpath cannot be traced)",
               "os.getcwd -> '/' (relative destination variants)", "zip object -> list of member names (ZipInfo.filename)"],
        assumptions=["no symbolic links inside the destination (the property is about member names)",
                     "ZipInfo.filename is an arbitrary NUL-free string (zipfile truncates at NUL)",
                     "pure-Python normpath agrees with posix._path_normpath (self-tested on 10 paths at start-up; every counterexample is replayed with the C function)"],
        outside=[f"member names longer than the bound or using characters outside {ALPHABET!r} ('a' and 'd' stand for ordinary names / the destination's own name)",
                 "more than two members", "symlink members, zip-internal metadata"],
        explanation="bounded symbolic execution: CrossHair runs the real extractall/extract_member on symbolic member-name "
        "strings; z3 decides every branch; the path tree is exhausted per cube, so the oracle holds for every name within the bound",
        replay=replay,
        setup=setup,
    )


# ----------------------------------------------------------------------------- concrete replay (plain python, real FS)


def replay(cand: dict) -> dict:
    """Real zip, real extractall, real file system, inside a chroot sandbox so that escapes are harmless."""
    import json
    import shutil
    import subprocess
    import sys
    import tempfile

    d = cand["concrete"].get("detail") if isinstance(cand.get("concrete"), dict) else None
    if not isinstance(d, dict):
        d = cand.get("detail")
    names = d["names"]
    dst = d["dst"]
    sandbox = tempfile.mkdtemp(prefix="c15-replay-")
    try:
        code = r"""
import os, sys, json, zipfile, io
import mwlib.core.metabook
from mwlib.core import nuwiki
import posixpath, encodings.idna, encodings.cp437, encodings.utf_8
names, dst, sandbox = json.loads(sys.argv[1])
buf = io.BytesIO()
zf = zipfile.ZipFile(buf, "w")
for n in names:
    zi = zipfile.ZipInfo(n) ; zi.filename = n
    zf.writestr(zi, b"x")
zf.close()
zf = zipfile.ZipFile(io.BytesIO(buf.getvalue()))
os.makedirs(sandbox + "/d")
os.chroot(sandbox); os.chdir("/")
def snap():
    out = set()
    for r, ds, fs in os.walk("/"):
        for x in ds + fs: out.add(os.path.join(r, x))
    return out
before = snap()
err = None
try:
    nuwiki.extractall(zf, dst)
except Exception as e:
    err = type(e).__name__ + ": " + str(e)
after = snap()
new = sorted(after - before)
outside = [p for p in new if not (p == "/d" or p.startswith("/d/"))]
print("RESULT " + json.dumps({"new": new, "outside": outside, "err": err, "stored_names": [i.filename for i in zf.infolist()]}))
"""
        p = subprocess.run([sys.executable, "-c", code, json.dumps([names, dst, sandbox])], capture_output=True, text=True, timeout=60)
        line = [l for l in p.stdout.splitlines() if l.startswith("RESULT ")]
        if not line:
            return {"reproduced": False, "error": "sandbox run failed: " + (p.stderr or p.stdout)[-800:]}
        r = json.loads(line[-1][7:])
        if r["outside"]:
            return {"reproduced": True, "signature": "C15|escape", "what": f"extractall(dst={dst!r}) of members {names!r} created {r['outside']!r} outside the destination", "fs": r}
        return {"reproduced": False, "what": f"real extractall created only {r['new']!r} (err={r['err']})", "fs": r}
    finally:
        shutil.rmtree(sandbox, ignore_errors=True)
