"""C17 — jobs go to eligible workers in priority/FIFO order; finished stays finished."""
from harness import qcommon
from vlib.runner import CheckSpec, Cube
from vlib.stubs import qsim
from vlib.stubs.qsim import ADD, DISCONNECT, DROP, FINISH, KILL, PULL, READD, RUN, TICK, WAIT, WATCHDOG

PROPS = ("C17",)
FULL = (ADD, PULL, RUN, FINISH, KILL, TICK, DISCONNECT, WAIT, READD, WATCHDOG)
ORDER = (ADD, PULL, RUN, TICK)  # priority / FIFO / timeout ordering needs several jobs: deeper, smaller alphabet
DROPS = (ADD, DROP, WAIT, KILL)  # qdrop: a marked job is forgotten only after it has finished and been waited for
ORDER_Q = (ADD, PULL, RUN)  # quick tier: without the clock (deadlines stay concrete)
FINAL = (ADD, PULL, FINISH, KILL, TICK, DISCONNECT, RUN)  # races between finish / kill / timeout / disconnect


def h_bmc(**kw):
    return qcommon.h_bmc(**kw)


def h_nf(**kw):
    return qcommon.h_nf(**kw)


def h_twin(b1: int, b2: int, c3: int):
    """Two queued jobs with symbolic priorities, one pull: the lower priority number must be reachable as the answer
    in both orders (the order oracle is not vacuous)."""
    jobs, qserve = qcommon.load_modules()
    sim = qsim.Sim(jobs, qserve, choices=[], props=PROPS)
    try:
        sim.step(ADD, 0, b1, 50)
        sim.step(ADD, 0, b2, 50)
        sim.step(PULL, 0, 3, 0)
        if sim.workers[0].held and sim.workers[0].held[0].id == 2:
            return {"reached": "second job overtakes the first by priority", "history": sim.history}
        return None
    except qsim.Violation:
        return None
    finally:
        sim.cleanup()


def h_twin_timeout(c1: int, c2: int):
    """The clock stub is live: a queued job with a symbolic timeout does expire on a symbolic clock step."""
    jobs, qserve = qcommon.load_modules()
    sim = qsim.Sim(jobs, qserve, choices=[], props=PROPS)
    try:
        sim.step(ADD, 0, 0, c1)
        sim.step(TICK, 0, 0, c2)
        snap = sim.snapshot(1)
        if snap.get("done") and snap.get("error") == "timeout":
            return {"reached": "job timed out", "history": sim.history}
        return None
    except qsim.Violation:
        return None
    finally:
        sim.cleanup()


def build(tier: str) -> CheckSpec:
    import qs.jobs
    import qs.qserve

    cubes = []
    if tier == "quick":
        cubes += qcommon.bmc_cubes(h_bmc, "full", 3, FULL, 2, 200, PROPS)
        cubes += qcommon.bmc_cubes(h_bmc, "order", 4, ORDER_Q, 3, 200, PROPS)
        cubes += qcommon.bmc_cubes(h_bmc, "drop", 4, DROPS, 2, 200, PROPS)
        # two clients waiting for one marked job need five operations: only the prefixes with a drop and a wait, or two waits
        cubes += [c for c in qcommon.bmc_cubes(h_bmc, "drop", 5, DROPS, 3, 200, PROPS) if any(x in c.name for x in ("[add,drop,wait]", "[add,wait,drop]", "[add,wait,wait]"))]
        cubes += qcommon.nf_cubes(h_nf, "nf1", 1, 2, FULL, 200, PROPS)
        cubes += qcommon.nf_cubes(h_nf, "nf2", 2, 1, FULL, 200, PROPS)
        b = {"full": 3, "order": 4, "normal-form prefix": "1 staged job + 2 symbolic operations; 2 staged jobs + 1"}
    else:
        cubes += qcommon.bmc_cubes(h_bmc, "full", 4, FULL, 3, 2400, PROPS)
        cubes += qcommon.bmc_cubes(h_bmc, "order", 5, ORDER, 3, 2400, PROPS)
        cubes += qcommon.bmc_cubes(h_bmc, "final", 5, FINAL, 3, 2400, PROPS)
        cubes += qcommon.bmc_cubes(h_bmc, "drop", 5, DROPS, 3, 2400, PROPS)
        cubes += qcommon.nf_cubes(h_nf, "nf2", 2, 2, FULL, 2400, PROPS)
        cubes += qcommon.nf_cubes(h_nf, "nf3", 3, 1, FULL, 2400, PROPS)
        b = {"full": 4, "order": 5, "final": 5, "normal-form prefix": "2 staged jobs + 2 symbolic operations; 3 staged jobs + 1"}
    cubes.append(Cube("twin: priority overtaking reachable", h_twin, {"b1": int, "b2": int, "c3": int}, {}, timeout=60, role="twin"))
    cubes.append(Cube("twin: timeout fires through the clock stub", h_twin_timeout, {"c1": int, "c2": int}, {}, timeout=60, role="twin"))
    return CheckSpec(
        property_id="C17",
        level="model_checking",
        cubes=cubes,
        functions=[qs.jobs.workq, qs.jobs.job, qs.qserve.QPlugin],
        bounds={"operations_from_empty_queue": b,
                "alphabets": {"full": [qsim.OPNAMES[o] for o in FULL], "order": [qsim.OPNAMES[o] for o in (ORDER_Q if tier == "quick" else ORDER)],
                              "final": [qsim.OPNAMES[o] for o in FINAL]},
                "normal_form_stages": qcommon.STAGES,
                "workers": 3, "channels": 2, "channel_sets": qsim.CHANSETS,
                "priorities / timeouts / clock deltas": "unbounded symbolic integers (a path stands for an order type)",
                "finish errors": qsim.FINISH_ERRORS},
        stubs=["same scheduler / clock / random stubs as C16 (vlib/stubs/qsim.py)",
               "logging statements compiled out for the symbolic run"],
        assumptions=["reference model of the queue (vlib/stubs/qsim.py, class RJ and Sim.candidates/delivery): a pull must return the minimum "
                     "(priority, arrival) among jobs the reference holds queued in the requested channels; an ordering complaint only counts once the "
                     "better job is later seen to come out of the queue (so a lost job, which is C16's business, is not reported here)",
                     "a job whose deadline equals the clock exactly may or may not have timed out (either reading accepted)",
                     "re-adding a killed job is excluded (the property exempts it)"],
        outside=["histories longer than the bound", "dropjobs/dropdead (ttl expiry)", "more than 3 workers / 2 channels"],
        explanation="bounded model checking by symbolic execution against a reference model: every history of the bound over the stated alphabets, with symbolic "
        "priorities/timeouts/clock and scheduling choices, is executed on the real workq/QPlugin; each rpc_* answer and rpc_qinfo/rpc_getstats snapshot is compared with the reference",
        replay=replay,
        setup=qcommon.setup,
    )


def replay(cand: dict) -> dict:
    return qcommon.replay_history(cand, PROPS)
