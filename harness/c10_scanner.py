"""C10 — tokenization is lossless: tokens tile the input.

The scanner is re2c-generated C++ (_uscan.cc).  vlib/re2c_transpile.py turns the CURRENT file into a Python state
machine on every run (refusing anything outside the subset it understands); CrossHair/z3 then executes it on
symbolic code points.  The transpiled scanner is compared with a freshly compiled _uscan on every string literal of
the repository's scanner/parser tests and on every model the solver produces (translation validation).
"""
import os

from vlib.runner import CheckSpec, Cube
from vlib.sym import assume, choose

EBAD = 0xEBAD
_ns = {}


def scanner():
    if not _ns:
        from vlib import re2c_transpile, scanner_build

        _ns.update(re2c_transpile.load(scanner_build.CC_PATH))
    return _ns


def check_tiling(codes, tokens, max_read, nsent):
    """the property verbatim, on code points: contiguous, non-empty, in order, from 0 to the end (or the first NUL),
    only U+EBAD uncovered; no read beyond the sentinels"""
    n = len(codes)
    end = n
    for i, c in enumerate(codes):
        if c == 0:
            end = i
            break
    pos = 0
    for (typ, start, ln) in tokens:
        if ln <= 0:
            return {"sig": "tiling|empty-token", "token": [typ, start, ln]}
        if start < pos:
            return {"sig": "tiling|overlap-or-out-of-order", "token": [typ, start, ln], "pos": pos}
        for i in range(pos, start):
            if codes[i] != EBAD:
                return {"sig": "tiling|character-lost", "index": i, "token": [typ, start, ln]}
        pos = start + ln
        if pos > end:
            return {"sig": "tiling|token-beyond-end", "token": [typ, start, ln], "end": end}
    for i in range(pos, end):
        if codes[i] != EBAD:
            return {"sig": "tiling|tail-lost", "index": i}
    for (typ, start, ln) in tokens:
        for i in range(start, start + ln):
            if codes[i] == EBAD and typ != scanner()["ENUM"].get("t_ebad", -1):
                pass  # an EBAD inside another token (e.g. inside a comment) is covered, which is fine
    if max_read >= n + nsent:
        return {"sig": "sentinel|read-beyond-sentinels", "max_read": max_read, "n": n}
    return None


def h_whole(c0: int, c1: int, c2: int, c3: int, n: int, prefix: str = "", first_lo: int = 0, first_hi: int = 0x110000):
    """utoken.scan on a symbolic text of n code points (after a concrete prefix)"""
    S = scanner()
    codes = [c0, c1, c2, c3][:n]
    for c in codes:
        assume(0 <= c < 0x110000)
    if n:
        assume(first_lo <= codes[0] < first_hi)
    full = [ord(ch) for ch in prefix] + codes
    buf = full + [0] * 32  # utoken.scan appends 32 NUL sentinels
    s = S["Scanner"](buf, 0, len(buf))
    guard = 0
    try:
        while s.scan():
            guard += 1
            if guard > len(buf) + 5:
                return {"sig": "no-progress", "codes": full}
    except S["ReadOutOfBounds"] as e:
        return {"sig": "sentinel|read-out-of-buffer", "codes": full, "index": str(e)}
    except AssertionError as e:
        return {"sig": "no-termination", "codes": full, "detail": str(e)}
    toks = [(t.type, t.start, t.len) for t in s.tokens]
    v = check_tiling(full, toks, s.max_read, 32)
    if v:
        v["codes"] = full
        v["tokens"] = toks
    return v


def h_step(p0: int, p1: int, w0: int, w1: int, w2: int, w3: int, w4: int, w5: int, nwin: int, pre: int,
           lasttype: int, last_ebad: bool, tablemode: int, rowchar: int, lss: bool, first_lo: int = 0, first_hi: int = 0x110000):
    """ONE call of scan() from an arbitrary state satisfying the representation invariant I (tokens tile [0, start) except
    U+EBAD, flags consistent).  The history is summarised by the characters in front of `start`, the last token(s), the flags
    and counters.  pre = 0: start of the text; 3: like 1 with a just-dropped U+EBAD directly before start (last_ebad set); 1: one token covers the two characters before start (or a pending section
    marker + one token if lss); 2: like 1 but a dropped U+EBAD sits between the two tokens.  Post-condition: progress and I again."""
    S = scanner()
    E = S["ENUM"]
    win = [w0, w1, w2, w3, w4, w5][:nwin]
    for c in win + [p0, p1]:
        assume(0 <= c < 0x110000)
    assume(win[0] != 0)
    assume(first_lo <= win[0] < first_hi)
    assume(tablemode >= 0)
    assume(0 <= rowchar < 0x110000)
    assume(0 <= lasttype < len(E))

    def tok(typ, start, ln):
        t = S["Tok"]()
        t.type, t.start, t.len = typ, start, ln
        return t

    if pre == 0:
        prefix, toks, lsi = [], [], -1
        assume(not lss)
    else:
        assume(p0 != 0 and p1 != 0 and p0 != EBAD and p1 != EBAD)
        assume(lasttype != E["t_end"] and lasttype != E["t_ebad"])
        if pre == 1:
            prefix = [p0, p1]
            assume(not last_ebad)  # the flag is set only while the character before start is a dropped U+EBAD (pre = 3)
            if lss:
                toks, lsi = [tok(E["t_section"], 0, 1), tok(lasttype, 1, 1)], 0
            else:
                toks, lsi = [tok(lasttype, 0, 2)], -1
        elif pre == 2:
            prefix = [p0, EBAD, p1]
            assume(not last_ebad)  # the token after the dropped character has been found already
            toks, lsi = [tok(E["t_section"] if lss else E["t_text"], 0, 1), tok(lasttype, 2, 1)], (0 if lss else -1)
        else:
            # a U+EBAD directly before start has just been dropped: the last token ends in front of it and the flag is set
            prefix = [p0, p1, EBAD]
            assume(last_ebad)
            if lss:
                toks, lsi = [tok(E["t_section"], 0, 1), tok(lasttype, 1, 1)], 0
            else:
                toks, lsi = [tok(lasttype, 0, 2)], -1
    buf = prefix + win + [0] * 32
    s = S["Scanner"](buf, 0, len(buf))
    s.cursor = len(prefix)
    s.tokens = toks
    s.line_startswith_section = lsi
    s.last_ebad = 1 if last_ebad else 0
    s.tablemode = tablemode
    s.lineflags_rowchar = rowchar
    before = [(t.type, t.start, t.len) for t in s.tokens]
    start = s.cursor
    try:
        r = s.scan()
    except S["ReadOutOfBounds"] as e:
        return {"sig": "sentinel|read-out-of-buffer", "buf": buf[:len(prefix) + nwin], "index": str(e)}
    except AssertionError as e:
        return {"sig": "no-termination", "buf": buf[:len(prefix) + nwin], "detail": str(e)}
    after = [(t.type, t.start, t.len) for t in s.tokens]
    ctx = {"buf": buf[:len(prefix) + nwin], "start": start, "before": before, "after": after, "cursor": s.cursor, "ret": r,
           "state": [lasttype, bool(last_ebad), tablemode, rowchar, bool(lss), pre]}
    if s.cursor <= start:
        return dict(ctx, sig="step|no-progress")
    if s.cursor > len(prefix) + nwin + 1:
        return dict(ctx, sig="step|cursor-beyond-window")
    if r == E["t_end"]:
        return dict(ctx, sig="step|end-reported-before-nul")
    if s.tablemode < 0:
        return dict(ctx, sig="step|negative-tablemode")
    if not (s.line_startswith_section == -1 or 0 <= s.line_startswith_section < len(s.tokens)):
        return dict(ctx, sig="step|dangling-section-index")
    # the invariant again: tokens tile [0, cursor') except U+EBAD ...
    upto = min(s.cursor, len(prefix) + nwin)
    v = check_tiling(buf[:upto], after, s.max_read - 32 + 0, 32)
    if v is not None and not v["sig"].startswith("sentinel"):
        return dict(ctx, sig="step|" + v["sig"])
    # ... and a dropped U+EBAD run at the very end is remembered
    covered = 0
    for (_, st, ln) in after:
        covered = st + ln
    if covered < upto and not s.last_ebad:
        return dict(ctx, sig="step|ebad-flag-not-set")
    if s.max_read >= len(buf):
        return dict(ctx, sig="sentinel|read-beyond-sentinels")
    return None


def twin_tokens(c0: int, c1: int):
    """Reachability: two symbolic characters can produce two tokens of different types"""
    S = scanner()
    assume(0 < c0 < 128 and 0 < c1 < 128)
    buf = [c0, c1] + [0] * 32
    s = S["Scanner"](buf, 0, len(buf))
    while s.scan():
        pass
    if len(s.tokens) == 2 and s.tokens[0].type != s.tokens[1].type:
        return {"reached": [c0, c1, [(t.type, t.start, t.len) for t in s.tokens]]}
    return None


RANGES = [(1, 33), (33, 48), (48, 65), (65, 91), (91, 128), (128, 0xEBAD), (0xEBAD, 0xEBAE), (0xEBAE, 0x110000)]
FINE = [(1, 11), (11, 33), (33, 38), (38, 39), (39, 45), (45, 48), (48, 58), (58, 61), (61, 65), (65, 91), (91, 92), (92, 97), (97, 123), (123, 124),
        (124, 128), (128, 0xEBAD), (0xEBAD, 0xEBAE), (0xEBAE, 0x110000)]
PREFIXES = ["http://", "https://x.", "mailto:", "__NOTOC", "\x7fUNIQ-", "<!--", "&#", "&amp", "{|\n", "{|\n|", "\n ", "==", "''", "[[", "<br", "ftp://a", "a\n-", "\n----"]


def setup():
    scanner()
    validate_translation()


_validated = {}


def validate_translation():
    """transpiled scanner == freshly compiled scanner on the repository's own test inputs (harness error if not)"""
    if _validated:
        return _validated
    from vlib import scanner_build

    S = scanner()
    texts = scanner_build.harvest_test_strings()
    texts += PREFIXES + ["".join(chr(c) for c in (0xEBAD, 65, 0xEBAD, 0xEBAD, 10, 32, 66))]
    bad = []
    with scanner_build.Fresh() as fresh:
        for t in texts:
            if "\0" in t:
                continue
            try:
                a = S["scan_text"](t + "\0" * 32)[0]
            except Exception as e:
                a = "EXC " + repr(e)
            b = [tuple(x) for x in fresh.scan(t + "\0" * 32)]
            if a != b:
                bad.append((t, a, b))
    _validated.update(programs=len(texts), disagreements=len(bad))
    if bad:
        raise RuntimeError("translation validation failed: transpiled and compiled scanner disagree on %r: %r vs %r" % bad[0])
    return _validated


def build(tier: str) -> CheckSpec:
    from vlib import scanner_build

    S = scanner()
    val = validate_translation()
    q = tier == "quick"
    cubes = []
    tmo = 150 if q else 2400
    wp = {"c0": int, "c1": int, "c2": int, "c3": int}
    nmax = 2 if q else 3
    for n in range(0, nmax + 1):
        if n == 0:
            cubes.append(Cube("whole text, 0 chars", h_whole, wp, {"n": 0}, timeout=tmo, group="whole"))
            continue
        for lo, hi in (FINE if n >= 3 else RANGES):
            cubes.append(Cube(f"whole text, {n} chars, first in [{lo:#x},{hi:#x})", h_whole, wp, {"n": n, "first_lo": lo, "first_hi": hi},
                              timeout=tmo, per_path_timeout=30, group="whole"))
    for pre in PREFIXES:
        cubes.append(Cube(f"whole text, prefix {pre!r} + {1 if q else 2} chars", h_whole, wp, {"n": 1 if q else 2, "prefix": pre}, timeout=tmo, per_path_timeout=30, group="prefix"))
    sp = {"p0": int, "p1": int, "w0": int, "w1": int, "w2": int, "w3": int, "w4": int, "w5": int, "lasttype": int, "last_ebad": bool,
          "tablemode": int, "rowchar": int, "lss": bool}
    nwin = 3 if q else 5
    for pre in (0, 1, 2, 3):
        for lo, hi in (FINE if nwin >= 3 else RANGES):
            cubes.append(Cube(f"step, window {nwin}, {['at text start', 'mid text', 'mid text after a dropped U+EBAD', 'right after a dropped U+EBAD'][pre]}, first in [{lo:#x},{hi:#x})", h_step, sp,
                              {"nwin": nwin, "pre": pre, "first_lo": lo, "first_hi": hi}, timeout=tmo * 2, per_path_timeout=30, group="step"))
    cubes.append(Cube("twin: two tokens of different types", twin_tokens, {"c0": int, "c1": int}, {}, timeout=60, role="twin"))
    return CheckSpec(
        property_id="C10",
        level="translation_validation",
        cubes=cubes,
        functions=[(scanner_build.CC_PATH, "_uscan.cc: enum mwtok, class Scanner (found, bol, eol, newline), Scanner::scan (transpiled to %d Python lines)" % len(S["__source__"].splitlines()))],
        bounds={"whole texts": f"0..{nmax} symbolic code points (0..0x10FFFF), sharded on the class of the first; concrete prefixes {PREFIXES!r} followed by {1 if q else 2} symbolic code points",
                "step contract": f"one scan() call on a window of {nwin} symbolic code points from a symbolic state (two symbolic characters before start, type of the last token, last_ebad, tablemode >= 0, "
                "rowchar, line_startswith_section set or not)", "sentinels": "32 NULs as utoken.scan appends"},
        stubs=["_uscan (compiled) -> Python transpiled from the current _uscan.cc by vlib/re2c_transpile.py; pointers are list indices, every read is bounds-checked"],
        assumptions=["translation validation: transpiled == freshly compiled scanner on %d strings harvested from the repository's tests (0 disagreements) and on every solver model (replay)" % val["programs"],
                     "the step contract's pre-state summarises the history by the two characters before start and the last token; states with more history-dependent structure are covered by the whole-text cubes only"],
        outside=["look-ahead beyond the window after the concrete prefixes (long URLs, magic words, UNIQ markers are covered through their loops only up to the window)", "texts longer than the bound in the whole-text cubes"],
        explanation="the re2c-generated C++ scanner is transpiled to Python on every run, validated against a fresh g++ build, and executed symbolically: z3 decides every character-class comparison of the DFA, "
        "so each path stands for a whole class of inputs; oracle = the tiling law on whole texts and an inductive one-step contract",
        replay=replay,
        setup=setup,
        extra={"programs": val["programs"], "disagreements_checked": val["disagreements"]},
    )


def replay(cand: dict) -> dict:
    """the concrete text through a freshly compiled _uscan via the real utoken.scan; must agree with the transpiled scanner"""
    from vlib import scanner_build

    d = cand.get("concrete", {}).get("detail")
    if not isinstance(d, dict):
        return {"reproduced": False, "error": "no concrete detail"}
    S = scanner()
    codes = d.get("codes") or d.get("buf")
    base = "".join(chr(c) for c in codes)
    import mwlib.core.metabook  # noqa
    from mwlib.parser.token import utoken

    # a one-step counterexample starts from a symbolic state; histories that establish it are tried: the table depth is
    # reached by that many table openings at line starts, a pending section marker by a heading start
    candidates = [base]
    if d["sig"].startswith("step|") and d.get("state"):
        tm = min(int(d["state"][2]), 4)
        for k in range(1, tm + 1):
            candidates.append("{|\n" * k + base)
            candidates.append("{|\n" * k + "| " + base)
        if d["state"][4]:
            candidates.append("==" + base)
            candidates.append("==" + base[1:])
            candidates.append("=" + base[1:])
    v = None
    with scanner_build.Fresh() as fresh:
        saved = utoken._mwscan
        utoken._mwscan = fresh
        try:
            for text in candidates:
                real = [tuple(x) for x in utoken.scan(text)]
                mine = S["scan_text"](text + "\0" * 32)[0]
                if real != mine:
                    return {"reproduced": False, "error": f"translation validation failed on {text!r}: compiled {real!r} vs transpiled {mine!r}"}
                v = check_tiling([ord(c) for c in text], real, -1, 32)
                if v is not None:
                    break
        finally:
            utoken._mwscan = saved
    if d["sig"].startswith("step|") and v is None:
        return {"reproduced": False, "not_liftable": True, "what": f"one-step contract fails from a state that no history reaches: scanning {text!r} from the start tiles correctly ({d['sig']})"}
    if v is None and d["sig"].startswith("sentinel"):
        return {"reproduced": True, "signature": "C10|" + d["sig"], "what": f"scanning {text!r} reads beyond the 32 NUL sentinels (index {d.get('index') or d.get('max_read')})"}
    if v is None:
        return {"reproduced": False, "what": f"compiled scanner tiles {text!r} correctly: {real!r}"}
    return {"reproduced": True, "signature": "C10|" + v["sig"], "what": f"utoken.scan({text!r}) = {real!r}: {v['sig']}"}
