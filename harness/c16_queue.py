"""C16 — the job queue neither loses nor duplicates a job, under any interleaving."""
from harness import qcommon
from vlib.runner import CheckSpec, Cube
from vlib.stubs import qsim
from vlib.stubs.qsim import ADD, DISCONNECT, FINISH, KILL, PULL, READD, RUN, TICK, WATCHDOG

PROPS = ("C16",)
FULL = (ADD, PULL, RUN, FINISH, KILL, TICK, DISCONNECT, READD)
HANDOFF = (ADD, PULL, RUN, DISCONNECT)


def h_bmc(**kw):
    return qcommon.h_bmc(**kw)


def h_nf(**kw):
    return qcommon.h_nf(**kw)


def h_twin(a1: int, b1: int, c1: int, a2: int, b2: int, c2: int, a3: int, b3: int, c3: int):
    """pull blocks; add; run -> the job reaches the worker through the hand-off path (must be reachable)."""
    jobs, qserve = qcommon.load_modules()
    sim = qsim.Sim(jobs, qserve, choices=[], props=PROPS)
    try:
        sim.step(PULL, a1, b1, c1)
        sim.step(ADD, a2, b2, c2)
        sim.step(RUN, a3, b3, c3)
        for w in sim.workers:
            if w.held:
                return {"reached": "hand-off delivery", "history": sim.history}
        return None
    except qsim.Violation as v:
        return None
    finally:
        sim.cleanup()


def build(tier: str) -> CheckSpec:
    import qs.jobs
    import qs.qserve

    cubes = []
    if tier == "quick":
        cubes += qcommon.bmc_cubes(h_bmc, "full", 3, FULL, 2, 200, PROPS)
        cubes += qcommon.bmc_cubes(h_bmc, "handoff", 4, HANDOFF, 3, 200, PROPS)
        cubes += qcommon.nf_cubes(h_nf, "nf1", 1, 2, FULL, 200, PROPS)
        cubes += qcommon.nf_cubes(h_nf, "nf2", 2, 1, FULL, 200, PROPS)
    else:
        cubes += qcommon.bmc_cubes(h_bmc, "full", 4, FULL, 3, 2400, PROPS)
        cubes += qcommon.bmc_cubes(h_bmc, "handoff", 5, HANDOFF, 3, 2400, PROPS)
        cubes += qcommon.nf_cubes(h_nf, "nf2", 2, 2, FULL, 2400, PROPS)
        cubes += qcommon.nf_cubes(h_nf, "nf3", 3, 1, FULL, 2400, PROPS)
    cubes.append(Cube("twin: hand-off delivery reachable", h_twin,
                      {k: int for k in ("a1", "b1", "c1", "a2", "b2", "c2", "a3", "b3", "c3")}, {}, timeout=60, role="twin"))
    return CheckSpec(
        property_id="C16",
        level="model_checking",
        cubes=cubes,
        functions=[qs.jobs.workq, qs.jobs.job, qs.qserve.QPlugin, qs.qserve.db],
        bounds={"operations_from_empty_queue": {"full alphabet": 3 if tier == "quick" else 4, "hand-off alphabet": 4 if tier == "quick" else 5},
                "alphabets": {"full": [qsim.OPNAMES[o] for o in FULL], "handoff": [qsim.OPNAMES[o] for o in HANDOFF]},
                "normal_form_prefix": ("1 staged job + 2 symbolic operations, 2 staged jobs + 1" if tier == "quick" else "2 staged jobs + 2 symbolic operations, 3 staged jobs + 1"),
                "normal_form_stages": qcommon.STAGES,
                "workers": 3, "channels": 2, "channel_sets": qsim.CHANSETS,
                "priorities / timeouts / clock deltas": "unbounded symbolic integers",
                "finish errors": qsim.FINISH_ERRORS, "random.choice": "symbolic index"},
        stubs=["qs.jobs.event -> deterministic greenlet scheduler (Event/AsyncResult block by switching to the harness)",
               "qs.jobs.time -> harness clock advanced by symbolic deltas", "qs.jobs.random.choice -> symbolic index",
               "logging statements of qs.jobs / qs.qserve compiled out for the symbolic run (replays use the unmodified modules)",
               "rpcserver.handle_client -> one greenlet per connection running one rpc_* at a time; disconnect = GreenletExit at the blocking point, then handler.shutdown()"],
        assumptions=["gevent semantics: code between blocking calls is atomic; set() makes waiters runnable without running them; "
                     "AsyncResult.set on a ready result overwrites the value; any runnable greenlet may be chosen next",
                     "a worker connection issues one request at a time (rpcserver reads the next request after answering the previous one)"],
        outside=["histories longer than the bound (the property's own bound of 8 operations is not reached by BMC from the empty queue)",
                 "the socket/JSON layer of rpcserver", "more than 3 workers / 2 channels"],
        explanation="bounded model checking by symbolic execution: the sequence of operation kinds, their arguments (worker, channel set, "
        "job, priority, timeout, clock delta) and every scheduling choice are z3 integer variables; CrossHair runs the real workq/QPlugin "
        "code on them and the path tree is exhausted per cube; conservation is judged by draining the queue through the public API",
        replay=replay,
        setup=qcommon.setup,
    )


def replay(cand: dict) -> dict:
    return qcommon.replay_history(cand, PROPS)
