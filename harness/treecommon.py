"""Shared by C05 / C06 / C07: symbolic documents for the tree cleaner.

A document is composed from a catalogue of wikitext fragments (containers and leaves) chosen by symbolic integers,
parsed by the real parser (so every tree shape is reachable by construction) and turned into an advanced tree; in
the attribute cubes the id / class / style value of one node are then replaced by symbolic strings, so that the
solver finds the values that switch individual passes on (region_list, overflow:auto, noprint ...).  The real
TreeCleaner passes run one by one in cleaner_methods order; after each pass the repository's own validators run.
"""
import re

from vlib.sym import assume, choose, pinned

# ---------------------------------------------------------------------------- fragment catalogue
# ATTR is replaced by nothing (shape cubes) or by placeholder attributes (attribute cubes)

LONG_TEXT = " ".join("word%d" % i for i in range(45))

CONTAINERS = [
    ("none", "", ""),
    ("div", "<div ATTR>\n", "\n</div>"),
    ("table1", "{| ATTR\n| ", "\n|}"),
    ("table2x2", "{| ATTR\n| a1 || a2\n|-\n| b1 || ", "\n|}"),
    ("ul", "<ul ATTR><li>", "</li></ul>"),
    ("section", "== head ==\n", "\n"),
    ("center", "<center>", "</center>"),
    ("underline", "<u>", "</u>"),
    ("italic", "''", "''"),
    ("ref", "t<ref ATTR>", "</ref> u\n<references/>"),
    ("span", "<span ATTR>", "</span>"),
    ("pre", "<pre>", "</pre>"),
    ("dl", "; term\n: ", "\n"),
    ("blockquote", "<blockquote>", "</blockquote>"),
    ("caption", "{| ATTR\n|+ ", "\n| x\n|}"),
    ("cellrow", "{|\n|- ATTR\n| r1 || ", "\n|}"),
    ("gallerycap", "<gallery>\nFile:g.png|", "\n</gallery>"),
    ("small", "<small>", "</small>"),
    ("sup", "<sup>", "</sup>"),
    ("p", "<p ATTR>", "</p>"),
    # malformed HTML: content directly inside a list / table / row (error recovery of the parser)
    ("ul-stray", "<ul ATTR>", "<li>one</li></ul>"),
    ("ol-stray", "<ol><li>zero</li>", "</ol>"),
    ("table-stray", "<table ATTR>", "<tr><td>c</td></tr></table>"),
    ("tr-stray", "<table><tr>", "<td>c</td></tr></table>"),
    ("li-in-cell", "{|\n| <ul>", "<li>x</li></ul>\n|}"),
    ("unclosed-div", "<div ATTR><b>", ""),
    # a two-column table that is not the article's infobox (more than 200 characters of text precede it)
    ("late-table2x2", LONG_TEXT + "\n\n{| ATTR\n| a1 || a2\n|-\n| b1 || ", "\n|}"),
    ("center-in-cell", "{|\n| c1 || <center>", "</center>\n|}"),
    ("late-table1", "intro\n\n{| ATTR\n|", "\n|}"),
    # content inside a section heading / inside a space-indented preformatted line
    # attribute names in capitals / mixed case (HTML attribute names are case-insensitive)
    ("table-caps", "{| cellSpacing=\"0\" BORDER=\"1\"\n| BGCOLOR=\"#eee\" | ", "\n|}"),
    ("heading", "== h ", " ==\nbody\n"),
    ("spacepre", " pre ", "\n"),
]

LEAVES = [
    ("word", "word"),
    ("two-paragraphs", "one\n\ntwo"),
    ("br", "a<br/>b"),
    ("brs", "<br/><br/>"),
    ("image", "[[File:x.png|thumb|cap]]"),
    ("ogg", "[[File:x.ogg]]"),
    ("link", "[[Other|label]]"),
    ("category", "[[Category:X]]"),
    ("langlink", "[[de:X]]"),
    ("url", "[http://x.org t]"),
    ("math", "<math>x</math>"),
    ("empty", ""),
    ("newline", "\n"),
    ("table", "\n{|\n| n1 || n2\n|}\n"),
    ("list", "\n* i1\n* i2\n"),
    ("deflist", "\n; t\n: d\n"),
    ("ref", "<ref name=\"n\">r</ref>"),
    ("refs", "<ref name=\"n\">r</ref><ref name=\"n\"/>"),
    ("heading", "\n=== sub ===\nbody\n"),
    ("center", "<center>c</center>"),
    ("subsup", "<sup><sub>x</sub></sup>"),
    ("seealso", "\n== See also ==\n* [[X]]\n"),
    ("preline", "\n pre line\n"),
    ("emptytag", "<div></div><span></span>"),
    ("bold-empty", "''' '''"),
    ("gallery", "<gallery>\nFile:a.png|c\n</gallery>"),
    ("source", "<source lang=\"c\">int x;</source>"),
    ("editlink", "<span class=\"editlink\">[edit]</span>"),
    ("noprint", "<div class=\"noprint\">np</div>"),
    ("bordered-table", "\n{| class=\"wikitable\"\n| n1 || n2\n|}\n"),
    ("bordered-table-in-div", "\n<div>\n{| class=\"wikitable\"\n| n1 || n2\n|}\n</div>\n"),
    ("table-of-lists", "\n{|\n|\n* i1\n* i2\n* i3\n* i4\n* i5\n* i6\n* i7\n|\n* j1\n* j2\n|}\n"),
    ("long-list", "\n" + "".join("* item %d\n" % i for i in range(8))),
    ("big-nested-table", "\n{|\n| " + LONG_TEXT + " " + LONG_TEXT + "\n|-\n| more\n|}\n"),
    # inline HTML block elements (usable inside a heading or a preformatted line)
    ("caps-attr", "<div Class=\"box\" STYLE=\"color:red\" Id=\"x\">caps</div>"),
    ("html-list", "<ul><li>one</li><li>two</li></ul>"),
    ("html-table", "<table><tr><td>c1</td><td>c2</td></tr></table>"),
    # two nesting violations at different depths below one neutral wrapper
    ("two-images-nested", "<span>aa [[File:a.png]] bb <b>[[File:b.png]]</b></span>"),
    ("two-galleries-nested", "<div>aa <gallery>\nFile:a.png|c\n</gallery> bb <div><gallery>\nFile:b.png|c\n</gallery></div></div>"),
    ("wide-table", "\n{|\n" + "|-\n" + "".join("| c%d " % i + ("|" if i < 7 else "\n") for i in range(8)) + "|}\n"),
]

ATTR_PLACEHOLDER = 'id="zzid" class="zzcls" style="zzkey:zzval"'
STYLE_COMPANIONS = {"height": "300px", "width": "300px"}  # declarations next to the symbolic one (lengths go through float(): C code)
LENGTHS = ["300px", "50%", "abc"]  # vocabulary for the height declaration, chosen by a symbolic index
STYLE_KEYS = ["overflow", "position", "height", "width", "display", "visibility", "direction", "text-align", "border", "float"]
ATTR_SHAPES = [  # (outer container, inner container, leaf, which container carries the symbolic attributes: 1 outer / 2 inner)
    ("div", "none", "word", 1),
    ("table1", "none", "word", 1),
    ("table2x2", "none", "word", 1),
    ("table1", "div", "word", 2),      # div with symbolic attributes inside a table cell
    ("div", "table1", "word", 2),      # table with symbolic attributes inside a div
    ("div", "table1", "word", 1),      # div with symbolic attributes around a table
    ("div", "table2x2", "image", 1),
    ("table2x2", "span", "word", 2),
    ("span", "none", "word", 1),
    ("ul", "none", "word", 1),
    ("ref", "none", "word", 1),
    ("cellrow", "none", "word", 1),
    ("caption", "none", "word", 1),
    ("p", "none", "word", 1),
    ("table2x2", "none", "image", 1),
    ("div", "none", "image", 1),
    ("table2x2", "none", "list", 1),
    ("section", "div", "word", 2),
    ("table1", "div", "table", 2),     # a scrollable div inside a cell that itself holds a nested table
    ("div", "table1", "table", 2),     # a table with symbolic attributes whose cell holds a nested table
    ("div", "table1", "table", 1),     # a div with symbolic attributes around a table whose cell holds a nested table
    ("div", "center", "table", 1),     # a div with symbolic attributes around a table wrapped in another element
]
QUICK_ATTR_SHAPES = [0, 1, 3, 4, 5, 6, 7, 8, 9, 10, 11, 18, 19, 20, 21]
QUICK_LENGTH_SHAPES = [0, 3, 4, 5, 6, 18, 19]  # passes that scale lengths are the slow ones: fewer documents in the quick tier


def cidx(name):
    return [c[0] for c in CONTAINERS].index(name)


def lidx(name):
    return [l[0] for l in LEAVES].index(name)


def compose(c1, c2, l1, l2, l3=None, attr_on=None, l1_text=None):
    """c1( c2( l1 ) l2 ) [blank line l3]; attr_on in (None, 1, 2): which container carries the placeholder attributes;
    l1_text replaces the first leaf by generated markup (sized leaves)"""
    _, o1, e1 = CONTAINERS[c1]
    _, o2, e2 = CONTAINERS[c2]
    o1 = o1.replace("ATTR", ATTR_PLACEHOLDER if attr_on == 1 else "")
    o2 = o2.replace("ATTR", ATTR_PLACEHOLDER if attr_on == 2 else "")
    doc = o1 + o2 + (LEAVES[l1][1] if l1_text is None else l1_text) + e2 + (" " + LEAVES[l2][1] if l2 is not None else "") + e1
    if l3 is not None:
        doc += "\n\n" + LEAVES[l3][1]
    return doc.replace(" >", ">").replace("{| \n", "{|\n").replace("|- \n", "|-\n")


# ---------------------------------------------------------------------------- sized leaves (size heuristics of the cleaner)

_SIZED = []


def harvest_thresholds():
    """Integer constants (>= 15) that the cleaner compares sizes with, from the current source of treecleaner / treecleanerhelper."""
    import inspect

    from mwlib.parser import treecleaner, treecleanerhelper

    vals = set()
    for m in (treecleaner, treecleanerhelper):
        for mo in re.finditer(r"(?:[<>]=?|==)\s*(\d{2,5})\b", inspect.getsource(m)):
            v = int(mo.group(1))
            if v >= 15:
                vals.add(v)
    return sorted(vals)


def words_of_length(n):
    out = []
    i = 0
    total = 0
    while total < n:
        w = "w%d" % i
        out.append(w)
        total += len(w) + 1
        i += 1
    return " ".join(out)[:n].rstrip() or "w"


def sized_leaves():
    """[(name, markup)]: for every size threshold T of the cleaner a text of T+1 characters (thresholds >= 80), and tables /
    lists whose row, column, cell or item count is T+1 (thresholds <= 40; 200 cells for the cell-count threshold)"""
    if _SIZED:
        return _SIZED
    ths = harvest_thresholds()
    for t in ths:
        if t >= 80:
            _SIZED.append(("text%d" % (t + 1), words_of_length(t + 1)))
    for t in ths:
        if t <= 40:
            n = t + 1
            _SIZED.append(("rows%d" % n, "\n{|\n" + "|-\n".join("| r%d\n" % i for i in range(n)) + "|}\n"))
            _SIZED.append(("cols%d" % n, "\n{|\n| " + " || ".join("c%d" % i for i in range(n)) + "\n|}\n"))
            _SIZED.append(("items%d" % n, "\n" + "".join("* i%d\n" % i for i in range(n))))
    if any(150 <= t <= 400 for t in ths):
        t = [t for t in ths if 150 <= t <= 400][0]
        cols = 15
        rows = t // cols + 1
        _SIZED.append(("cells%d" % (rows * cols), "\n{|\n" + "|-\n".join("| " + " || ".join("x" for _ in range(cols)) + "\n" for _ in range(rows)) + "|}\n"))
    return _SIZED


# ---------------------------------------------------------------------------- untraced helpers


from vlib.sym import untraced  # noqa: E402,F401


_mods = {}


def mods():
    if not _mods:
        import mwlib.core.metabook  # noqa: F401
        from mwlib.parser import advtree, treecleaner
        from mwlib.parser.refine import uparser

        for m, names in ((advtree, ("build_advanced_tree", "_validate_parser_tree", "_validate_parents")), (treecleaner, ("TreeCleaner",))):
            for n in names:
                if not hasattr(m, n):
                    raise RuntimeError(f"stub target {m.__name__}.{n} is gone")
        _mods.update(advtree=advtree, treecleaner=treecleaner, uparser=uparser)
    return _mods["advtree"], _mods["treecleaner"], _mods["uparser"]


class _NullOut:
    def write(self, s):
        pass

    def flush(self):
        pass


def build_tree(markup):
    advtree, treecleaner, uparser = mods()

    def go():
        t = uparser.parse_string("T", markup, lang="en")
        advtree.build_advanced_tree(t)
        return t

    return untraced(go)


def inject_attrs(tree, sid, scls, skey, sval, height="300px"):
    """replace the placeholder attribute values by (symbolic) ones; returns the number of nodes touched"""
    n = 0
    for node in tree.allchildren():
        vl = getattr(node, "vlist", None)
        if isinstance(vl, dict) and vl.get("id") == "zzid":
            vl["id"] = sid
            vl["class"] = scls
            st = dict(STYLE_COMPANIONS)
            st["height"] = height
            st[skey] = sval
            vl["style"] = st
            n += 1
    return n


# ---------------------------------------------------------------------------- oracles


class StepBudget(Exception):
    pass


def count_nodes(tree):
    return sum(1 for _ in tree.allchildren())


def visible_words(tree):
    """Text words in reading order with their structural context (section depth, list-item depth, inside a reference)."""
    advtree, treecleaner, _ = mods()
    out = []

    def walk(node, sec, item, ref):
        cn = node.__class__.__name__
        if cn == "Section":
            sec += 1
        elif cn == "Item":
            item += 1
        elif cn == "Reference":
            ref = True
        if cn == "Text":
            for w in (node.caption or "").split():
                out.append((w, sec, item, ref))
        for c in node.children:
            walk(c, sec, item, ref)

    walk(tree, 0, 0, False)
    return out


def contract_violations(tree):
    """C05: what the writers rely on after the full cleaning sequence"""
    bad = []
    for node in tree.allchildren():
        cn = node.__class__.__name__
        kids = [c.__class__.__name__ for c in node.children]
        pn = node.parent.__class__.__name__ if getattr(node, "parent", None) is not None else None
        if cn == "Table":
            for k in kids:
                if k not in ("Row", "Caption"):
                    bad.append(f"Table contains {k}")
        elif cn == "Row":
            for k in kids:
                if k != "Cell":
                    bad.append(f"Row contains {k}")
            if pn != "Table":
                bad.append(f"Row inside {pn}")
        elif cn == "ItemList":
            for k in kids:
                if k != "Item":
                    bad.append(f"ItemList contains {k}")
        elif cn == "Cell":
            if pn != "Row":
                bad.append(f"Cell inside {pn}")
        elif cn == "Item":
            if pn != "ItemList":
                bad.append(f"Item inside {pn}")
        elif cn == "Text" and node.children:
            bad.append("Text leaf has children")
    return bad


LOOP_HELPERS = ["_fix_paragraphs", "_fix_nesting"]


def attr_sensitive_passes():
    """Indices (in cleaner_methods order) of the passes whose code - including the TreeCleaner helper methods they call -
    looks at node attributes / styles.  Computed from the current source on every run."""
    import inspect

    advtree, treecleaner, _ = mods()
    TC = treecleaner.TreeCleaner
    tokens = ("attributes", ".style", "vlist", "has_class_id", "visible", "styleutils", "miscutils", "get_style", "scale_length")
    cache = {}

    def closure_src(name, seen):
        if name in seen:
            return ""
        seen.add(name)
        fn = getattr(TC, name, None)
        if fn is None or not callable(fn):
            return ""
        try:
            src = inspect.getsource(fn)
        except (OSError, TypeError):
            return ""
        out = src
        for callee in set(re.findall(r"self\.(\w+)\(", src)):
            out += closure_src(callee, seen)
        return out

    res = []
    methods = [m for m in TC.cleaner_methods if m not in TC.skip_methods]
    for i, m in enumerate(methods):
        if m not in cache:
            cache[m] = closure_src(m, set())
        if any(t in cache[m] for t in tokens):
            res.append(i)
    PASS_STYLE_KEYS.clear()
    for i in res:
        keys = []
        for k in re.findall(r"style(?:\.get\(|\[)\s*[\"']([\w-]+)[\"']", cache[methods[i]]):
            if k not in keys and k != "height":
                keys.append(k)
        PASS_STYLE_KEYS[i] = tuple(keys) if keys else ("display", "position")
        PASS_USES_LENGTH[i] = ("scale_length" in cache[methods[i]]) or ('"height"' in cache[methods[i]])
    return res, methods


PASS_STYLE_KEYS = {}
PASS_USES_LENGTH = {}


def run_passes(tree, props, want_words=False, first=0, last=None, symbolic_at=None):
    """Run the cleaning passes [first, last] in order on `tree`; return a violation dict or None.
    symbolic_at = (index, callback): callback(tree) is invoked right before that pass (attribute injection) and the
    passes before it run outside the tracer."""
    if symbolic_at is not None:
        k, inject = symbolic_at
        if k > 0:
            v = untraced(run_passes, tree, props, False, 0, k - 1, None)
            if v is not None:
                v["before_injection"] = True
                return v
        if not inject(tree):
            return {"ignore": True}
        return run_passes(tree, props, False, k, k, None)
    advtree, treecleaner, _ = mods()
    import sys

    tc = treecleaner.TreeCleaner(tree, save_reports=True)
    n0 = count_nodes(tree)
    budget = 4 * n0 * n0 + 8
    calls = {"n": 0}
    for hname in LOOP_HELPERS:
        orig = getattr(tc, hname, None)
        if orig is None:
            continue

        def wrapped(*a, __orig=orig, **k):
            calls["n"] += 1
            if calls["n"] > budget:
                raise StepBudget(f"more than {budget} iterations")
            return __orig(*a, **k)

        setattr(tc, hname, wrapped)
    if "C05" in props and first == 0:
        try:
            advtree._validate_parser_tree(tree)
            advtree._validate_parents(tree)
        except Exception as e:
            return {"prop": "C05", "sig": "C05|after=build_advanced_tree|" + type(e).__name__, "after": "build_advanced_tree", "detail": str(e)[:200]}
    before_words = visible_words(tree) if want_words else None
    methods = [m for m in tc.cleaner_methods if m not in tc.skip_methods]
    old_out = sys.stdout
    for i, name in enumerate(methods):
        if i < first or (last is not None and i > last):
            continue
        calls["n"] = 0
        fn = getattr(tc, name, None)
        if fn is None:
            return {"prop": "C06", "sig": "C06|pass=" + name + "|missing", "pass": name, "index": i}
        try:
            sys.stdout = _NullOut()
            try:
                fn(tree)
            finally:
                sys.stdout = old_out
        except Exception as e:
            if "C06" in props:
                msg = str(e)
                mo = re.search(r"has no attribute '(\w+)'", msg)
                what = mo.group(1) if mo else ""
                return {"prop": "C06", "sig": f"C06|pass={name}|exc={type(e).__name__}" + (f"|attr={what}" if what else ""),
                        "pass": name, "index": i, "exc": type(e).__name__, "detail": msg[:200]}
            return None  # another property's business; the tree is undefined from here on
        if "C05" in props:
            try:
                advtree._validate_parser_tree(tree)
                advtree._validate_parents(tree)
            except Exception as e:
                return {"prop": "C05", "sig": f"C05|after={name}|" + type(e).__name__, "after": name, "index": i, "detail": str(e)[:200]}
    if last is not None:
        return None
    if "C06" in props:
        for r in tc.get_reports() if hasattr(tc, "get_reports") else []:
            if "ERROR" in str(r):
                return {"prop": "C06", "sig": "C06|report-error", "detail": str(r)[:200]}
    if "C05" in props:
        bad = contract_violations(tree)
        if bad:
            return {"prop": "C05", "sig": "C05|contract|" + bad[0], "after": "clean_all", "detail": bad[:4]}
    if want_words:
        return {"before": before_words, "after": visible_words(tree)}
    return None


# ---------------------------------------------------------------------------- harness functions


def h_shape(l1: int, l2: int, c1: int, c2: int, props: tuple, nl: int = 0):
    """document c1(c2(l1) l2), leaves symbolic, no attributes"""
    nleaves = len(LEAVES) if nl <= 0 else nl
    markup = compose(c1, c2, choose(l1, nleaves), choose(l2, nleaves))
    tree = build_tree(markup)
    v = untraced(run_passes, tree, props)  # nothing symbolic flows into the passes here: the solver enumerates the documents
    if v is not None:
        v["markup"] = markup
    return v


def h_sized(sidx: int, l2: int, c1: int, c2: int, props: tuple, l2set: tuple = ()):
    """document c1(c2(SIZED) l2): the first leaf is a text / table / list just above one of the cleaner's size thresholds"""
    sized = sized_leaves()
    name, text = sized[choose(sidx, len(sized))]
    l2set = tuple(l2set) or tuple(range(len(LEAVES)))
    markup = compose(c1, c2, None, l2set[choose(l2, len(l2set))], l1_text=text)
    tree = build_tree(markup)
    v = untraced(run_passes, tree, props)
    if v is not None:
        v["markup"] = markup
        v["sized"] = name
    return v


def h_shape3(l1: int, l2: int, l3: int, c1: int, c2: int, props: tuple):
    n = len(LEAVES)
    markup = compose(c1, c2, choose(l1, n), choose(l2, n), choose(l3, n))
    tree = build_tree(markup)
    v = untraced(run_passes, tree, props)
    if v is not None:
        v["markup"] = markup
    return v


def h_attr(sid: str, scls: str, skey: int, sval: str, hidx: int, shape: int, pass_index: int, props: tuple, keys: tuple = (), lengths: bool = True, maxlen: int = 14):
    """One node of the document carries a symbolic id, class and one style declaration (key from STYLE_KEYS, symbolic
    value).  The passes before `pass_index` run concretely on placeholder values; the symbolic values are injected
    right before the pass under test, which runs under the tracer."""
    assume(len(sid) <= maxlen and len(scls) <= maxlen and len(sval) <= 8)
    c1n, c2n, ln, attr_on = ATTR_SHAPES[shape]
    markup = compose(cidx(c1n), cidx(c2n), lidx(ln), None, attr_on=attr_on)
    tree = build_tree(markup)
    keys = tuple(keys) or tuple(STYLE_KEYS)
    key = keys[choose(skey, len(keys))]
    height = LENGTHS[choose(hidx, len(LENGTHS))] if lengths else "300px"  # only passes that scale lengths get the vocabulary
    v = run_passes(tree, props, symbolic_at=(pass_index, lambda t: inject_attrs(t, sid, scls, key, sval, height) >= 1))
    if v is not None and v.get("ignore"):
        assume(False)  # the node carrying the attributes was removed by an earlier pass: nothing to check for this pass
    if v is not None:
        v["markup"] = markup
        st = dict(STYLE_COMPANIONS)
        st["height"] = height
        st[key] = sval
        v["attrs"] = {"id": sid, "class": scls, "style": st}
    return v


def lift_markup(d):
    """wikitext for the replay: placeholder attributes replaced by the concrete values found by the solver"""
    markup = d["markup"]
    a = d.get("attrs")
    if a:
        style = ";".join("%s:%s" % kv for kv in a["style"].items())
        markup = markup.replace(ATTR_PLACEHOLDER, 'id="%s" class="%s" style="%s"' % (a["id"], a["class"], style))
    return markup


def replay_tree(cand, props):
    """Concrete replay on the real pipeline: the markup (attributes written into it) through parse_string,
    build_advanced_tree and the passes in order, no injection."""
    d = cand.get("concrete", {}).get("detail")
    if not isinstance(d, dict) or "markup" not in d:
        return {"reproduced": False, "error": "no concrete detail"}
    markup = lift_markup(d)
    tree = build_tree(markup)
    v = run_passes(tree, props)
    if v is None:
        return {"reproduced": False, "not_liftable": True,
                "what": f"{d.get('sig')} needs attribute values that do not survive the wikitext attribute parser: {markup!r} cleans without it"}
    same = v.get("sig") == d.get("sig")
    return {"reproduced": True, "signature": v["sig"], "same_as_symbolic": same,
            "what": f"{v['sig']} ({v.get('detail')}) on parse_string('T', {markup!r})"}
