"""C11 — fetching yields a complete and faithful archive: the data kernels (continuation / merging, contributors, batching).

The greenlet orchestration of Fetcher (pools, semaphores, HTTP client) is outside; encoded are the laws that are
data dependent: MwApi._do_request's continuation loop and result merging, MwApi.get_contributors, the path
Fetcher.get_edits -> _lookup_contributors -> authors store, and split_blocks / get_block.
"""
from vlib.runner import CheckSpec, Cube
from vlib.sym import assume, choose, untraced

NAMES = ["Alice", "CleanupBot", "xbot", "Botanist", "Zoë", ""]


def _mods():
    import mwlib.core.metabook  # noqa: F401
    from mwlib.core import authors
    from mwlib.network import fetch, sapi

    for m, names in ((sapi, ("MwApi", "merge_data")), (fetch, ("Fetcher", "split_blocks", "get_block")), (authors, ("InspectAuthors",))):
        for n in names:
            if not hasattr(m, n):
                raise RuntimeError(f"stub target {m.__name__}.{n} is gone")
    return sapi, fetch, authors


def make_api(handler):
    sapi, fetch, authors = _mods()
    api = sapi.MwApi.__new__(sapi.MwApi)
    api.qccount = 0
    api.apiurl = "http://wiki.example/w/api.php"
    api.baseurl = "http://wiki.example/w/"
    api.report = lambda: None
    api.rvlimit = 500
    api.limit_fetch_semaphore = None
    api._ensure_oauth2_token = lambda: None
    api._handle_request = handler
    return api


# ---------------------------------------------------------------------------- continuation / merging


def h_continuation(npages: int, c1: int, c2: int, c3: int, stuck: bool, repeat: bool):
    """A synthetic wiki serves its pages in batches cut at symbolic positions; the merged result must be the union,
    every batch requested once, and a server that repeats its continuation token must not loop forever."""
    assume(0 <= npages <= 5)
    assume(0 <= c1 <= c2 <= c3 <= npages)
    cuts = [0, c1, c2, c3, npages]
    pages = ["P%d" % i for i in range(5)]
    log = []

    def handler(**kw):
        start = int(kw.get("gcontinue", 0))
        log.append(start)
        if len(log) > 12:
            raise RuntimeError("continuation does not terminate")
        idx = cuts.index(start) if start in cuts else len(cuts) - 1
        # next non-empty batch boundary
        j = idx + 1
        while j < len(cuts) - 1 and cuts[j] == start:
            j += 1
        end = cuts[j] if j < len(cuts) else npages
        data = {"query": {"pages": {pages[i]: {"title": pages[i], "revisions": [{"revid": i}]} for i in range(start, end)}}}
        if end < npages:
            data["query-continue"] = {"allpages": {"gcontinue": end}}
        elif stuck and npages > 0:
            data["query-continue"] = {"allpages": {"gcontinue": start}}  # a server that cannot continue: same token again
        return data

    api = make_api(handler)
    try:
        res = api.do_request(action="query", generator="allpages")
        if repeat and not stuck:
            # the same client asks again (a redirect and its target, a title listed twice): same answer expected
            del log[:]
            res = api.do_request(action="query", generator="allpages")
    except RuntimeError as e:
        return {"sig": "continuation|does-not-terminate", "cuts": cuts, "npages": npages, "stuck": stuck, "log": log}
    if stuck:
        return None  # a server that repeats its token is outside the property's wikis: only termination is required of the client
    got = sorted((res.get("pages") or {}).keys())
    want = pages[:npages]
    if got != want:
        return {"sig": "continuation|merged-result-not-the-union", "cuts": cuts, "npages": npages, "got": got, "want": want}
    for t in want:
        if res["pages"][t].get("revisions") != [{"revid": int(t[1:])}]:
            return {"sig": "continuation|page-data-changed", "cuts": cuts, "page": t, "got": res["pages"][t]}
    if not stuck:
        for i, s in enumerate(log):
            if s in log[:i]:
                return {"sig": "continuation|batch-requested-twice", "cuts": cuts, "log": log}
    return None


def h_continuation_lists(npages: int, m0: int, m1: int, m2: int, m3: int, c1: int, c2: int, c3: int, c4: int, maxpages: int = 3):
    """Every page has 1..2 images; the wiki serves the flat list of (page, image) entries in batches cut at symbolic positions,
    so that one page's image list can arrive in two consecutive batches (the page is repeated with the rest of its list).
    The merged result must hold, for every page, its complete list in order, and every batch must be requested once."""
    assume(1 <= npages <= maxpages)
    ms = [m0, m1, m2, m3][:npages]
    items = []
    for i in range(npages):
        assume(1 <= ms[i] <= 2)
        for k in range(ms[i]):
            items.append(("P%d" % i, "File:%d_%d.png" % (i, k)))
    n = len(items)
    assume(0 <= c1 <= c2 <= c3 <= c4 <= n)
    cuts = [0, c1, c2, c3, c4, n]
    log = []

    def handler(**kw):
        start = int(kw.get("imcontinue", 0))
        log.append(start)
        if len(log) > 14:
            raise RuntimeError("continuation does not terminate")
        end = n
        for c in cuts:
            if c > start:
                end = c
                break
        pages = {}
        for t, img in items[start:end]:
            pages.setdefault(t, {"title": t, "images": []})["images"].append({"title": img})
        data = {"query": {"pages": pages}}
        if end < n:
            data["query-continue"] = {"images": {"imcontinue": end}}
        return data

    api = make_api(handler)
    try:
        res = api.do_request(action="query", prop="images")
    except RuntimeError:
        return {"sig": "continuation|does-not-terminate", "cuts": cuts, "items": n, "log": log}
    want = {}
    for t, img in items:
        want.setdefault(t, []).append(img)
    got = {t: [x.get("title") for x in (p.get("images") or [])] for t, p in (res.get("pages") or {}).items()}
    if got != want:
        return {"sig": "continuation|page-list-not-the-concatenation", "cuts": cuts, "got": got, "want": want}
    for i, s_ in enumerate(log):
        if s_ in log[:i]:
            return {"sig": "continuation|batch-requested-twice", "cuts": cuts, "log": log}
    return None


# ---------------------------------------------------------------------------- contributors


def h_contributors(n1: int, n2: int, n3: int, a1: int, a2: int, cut: int, redirect: bool, anon_late: bool, n4: int = 0):
    """two titles; four contributor entries with names chosen from NAMES, assigned to the titles by a symbolic split, served in
    two continuation chunks cut at a symbolic position; symbolic anonymous counts; optional redirect of the first title"""
    sapi, fetch, authors = _mods()
    names = [NAMES[choose(x, len(NAMES))] for x in (n1, n2, n3)] + [NAMES[n4]]
    assume(0 <= a1 < 1000 and 0 <= a2 < 1000)
    cut = choose(cut, 5)
    first = "Old" if redirect else "A"
    entries = [("A", names[0]), ("A", names[1]), ("B", names[2]), ("A", names[3])]

    def chunk(part, with_anon):
        pages = {}
        for t, nm in part:
            p = pages.setdefault("id" + t, {"title": t, "contributors": []})
            p["contributors"].append({"name": nm, "userid": 1})
        if with_anon:
            pages.setdefault("idA", {"title": "A", "contributors": []})["anoncontributors"] = a1
            pages.setdefault("idB", {"title": "B", "contributors": []})["anoncontributors"] = a2
        d = {"pages": pages}
        if redirect:
            d["redirects"] = [{"from": "Old", "to": "A"}]
        return d

    def do_request(action=None, merge_data=None, **kw):
        # the anonymous counts may arrive with either continuation chunk
        merge_data({}, chunk(entries[:cut], not anon_late))
        merge_data({}, chunk(entries[cut:], bool(anon_late)))

    api = make_api(None)
    api.do_request = do_request
    res = api.get_contributors([first, "B"])
    want = {"A": set(), "B": set()}
    for t, nm in entries:
        if nm and not nm.lower().endswith("bot"):
            want[t].add(nm)
    for t, anon in (("A", a1), ("B", a2)):
        ia = res.get(t)
        if ia is None:
            return {"sig": "contributors|title-missing", "title": t, "names": names, "cut": cut, "redirect": redirect, "anon_late": bool(anon_late)}
        if set(ia.authors) != want[t]:
            return {"sig": "contributors|wrong-names", "title": t, "got": sorted(ia.authors), "want": sorted(want[t]), "names": names, "cut": cut, "redirect": redirect, "anon_late": bool(anon_late)}
        if ia.num_anon != anon:
            return {"sig": "contributors|anonymous-count", "title": t, "got": ia.num_anon, "want": anon, "names": names, "cut": cut, "redirect": redirect, "anon_late": bool(anon_late)}
    return None


class _FsOut:
    def __init__(self):
        self.authors = {}

    def set_db_key(self, name, key, value):
        getattr(self, name)[key] = list(value)


def h_lookup_written(n1: int, n2: int, anon: int, mapped: bool, t: int):
    """Fetcher.get_edits(title): the authors store must afterwards hold, under the (mapped) title, what the API reported"""
    sapi, fetch, authors = _mods()
    names = [NAMES[choose(x, len(NAMES))] for x in (n1, n2)]
    assume(0 <= anon < 1000)
    title = ["Alpha", "File:X.png"][choose(t, 2)]

    class Api:
        def get_contributors(self, titles, rvlimit=None):
            out = {}
            for tt in titles:
                ia = authors.InspectAuthors()
                for nm in names:
                    if nm and not ia.bot_rex.search(nm):
                        ia.authors.add(nm)
                ia.num_anon = anon
                out[tt] = ia
            return out

    f = fetch.Fetcher.__new__(fetch.Fetcher)
    f.api = Api()
    f.fsout = _FsOut()
    f.title_mapping = {title: "Datei:X.png"} if mapped else {}
    f.titles_pending_contributor_lookup = type(fetch.Fetcher.titles_pending_contributor_lookup)(list)
    f.get_edits(title)
    ia = f.api.get_contributors([title])[title]
    want = ia.get_authors()
    key = "Datei:X.png" if mapped else title
    got = f.fsout.authors.get(key)
    if got != want:
        return {"sig": "contributors-not-stored", "title": title, "key": key, "stored": got, "api_reported": want, "names": names, "anon": anon}
    return None


# ---------------------------------------------------------------------------- batching


def h_blocks(n: int, limit: int):
    sapi, fetch, authors = _mods()
    n, limit = choose(n, 8), 1 + choose(limit, 8)  # concrete sizes: list slicing by a symbolic bound is not modelled faithfully
    lst = list(range(n))
    blocks = fetch.split_blocks(lst, limit)
    flat = [x for b in blocks for x in b]
    if flat != lst:
        return {"sig": "split_blocks|not-a-partition", "n": n, "limit": limit, "blocks": blocks}
    for b in blocks:
        if len(b) > limit or len(b) == 0:
            return {"sig": "split_blocks|block-size", "n": n, "limit": limit, "blocks": blocks}
    work = list(range(n))
    taken = []
    guard = 0
    while work:
        guard += 1
        if guard > 20:
            return {"sig": "get_block|no-progress", "n": n, "limit": limit}
        b = fetch.get_block(work, limit)
        if len(b) > limit or not b:
            return {"sig": "get_block|block-size", "n": n, "limit": limit, "block": b}
        taken.extend(b)
    if sorted(taken) != lst:
        return {"sig": "get_block|lost-or-duplicated", "n": n, "limit": limit, "taken": taken}
    return None


def twin_contrib(n1: int):
    """Reachability: a bot name is filtered (the bot rule is exercised)"""
    sapi, fetch, authors = _mods()
    nm = NAMES[choose(n1, len(NAMES))]
    ia = authors.InspectAuthors()
    if nm and ia.bot_rex.search(nm):
        return {"reached": nm}
    return None


def build(tier: str) -> CheckSpec:
    sapi, fetch, authors = _mods()
    tmo = 240 if tier == "quick" else 1500
    cubes = [
        Cube("continuation: batches cut at symbolic positions", h_continuation, {"npages": int, "c1": int, "c2": int, "c3": int, "stuck": bool, "repeat": bool}, {}, timeout=tmo, group="continuation"),
        Cube("continuation: one page's list split over batches", h_continuation_lists,
             {"npages": int, "m0": int, "m1": int, "m2": int, "m3": int, "c1": int, "c2": int, "c3": int, "c4": int}, {"maxpages": 3 if tier == "quick" else 4}, timeout=tmo, group="continuation"),
        Cube("contributors: names, bots, anon counts, chunks, redirect", h_contributors,
             {"n1": int, "n2": int, "n3": int, "a1": int, "a2": int, "cut": int, "redirect": bool, "anon_late": bool}, {"n4": 0}, timeout=tmo, group="contributors"),
        Cube("get_edits stores what the API reported", h_lookup_written, {"n1": int, "n2": int, "anon": int, "mapped": bool, "t": int}, {}, timeout=tmo, group="authors-store"),
        Cube("split_blocks / get_block", h_blocks, {"n": int, "limit": int}, {}, timeout=tmo, group="batching"),
        Cube("twin: bot filter reachable", twin_contrib, {"n1": int}, {}, timeout=60, role="twin"),
    ]
    return CheckSpec(
        property_id="C11",
        level="other",
        cubes=cubes,
        functions=[sapi.MwApi._do_request, sapi.MwApi._handle_query_continue, sapi.merge_data, sapi.MwApi.get_contributors,
                   fetch.Fetcher.get_edits, fetch.Fetcher._add_to_titles_pending_contributor_lookup, fetch.Fetcher._lookup_contributors,
                   fetch.split_blocks, fetch.get_block, authors.InspectAuthors.get_authors],
        bounds={"continuation": "0..5 pages, three symbolic cut points, optional server that repeats its continuation token, optionally the same query issued twice on one client; "
                                "1..%d pages with 1..2 images each served as a flat list cut at four symbolic positions (a page's list split over consecutive batches)" % (3 if tier == "quick" else 4),
                "contributors": "2 titles, 4 entries with names from %r, symbolic anonymous counts < 1000 arriving with the first or the second chunk, chunk cut 0..4, optional redirect" % NAMES,
                "authors store": "2 names from the same list, symbolic anonymous count, plain and mapped (image) title",
                "batching": "lists of 0..7 entries, limits 1..8"},
        stubs=["MwApi built with __new__; _handle_request / do_request replaced by a synthetic wiki; Fetcher built with __new__ with a dict-backed fsout and a stub API"],
        assumptions=["contributor names are chosen from a fixed list (the bot rule is a regex: C code)", "a name is a bot iff it ends in 'bot' in any letter case"],
        outside=["which pages / images get scheduled (closure over templates), redirect resolution, revision selection, image and description-page download, missing-page tolerance, "
                 "greenlet interleavings, --no-images: none of this is encoded; a change there is not seen by this check"],
        explanation="bounded symbolic execution of the fetcher's data kernels: batch cut points, anonymous counts, chunking and name choices are z3 variables",
        replay=replay,
    )


def replay(cand: dict) -> dict:
    fn = {"h_continuation": h_continuation, "h_continuation_lists": h_continuation_lists, "h_contributors": h_contributors, "h_lookup_written": h_lookup_written, "h_blocks": h_blocks}[cand["fn"]]
    import inspect

    a = cand["args"]
    kw = {k: a[k] for k in inspect.signature(fn).parameters}
    r = fn(**kw)
    if r is None:
        return {"reproduced": False, "what": "holds on the real functions in plain Python"}
    import json

    return {"reproduced": True, "signature": "C11|" + r["sig"], "what": json.dumps(r, ensure_ascii=False, default=str)[:400]}
