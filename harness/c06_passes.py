"""C06 — every cleaning pass completes on every parsed document."""
from harness import treecommon as T
from vlib.runner import CheckSpec, Cube

PROPS = ("C06",)


def h_shape(**kw):
    return T.h_shape(**kw)


def h_sized(**kw):
    return T.h_sized(**kw)


def h_shape3(**kw):
    return T.h_shape3(**kw)


def h_attr(**kw):
    return T.h_attr(**kw)


def twin_pass_changes_tree(l1: int, l2: int, c1: int, c2: int):
    """Reachability: the passes do run and do restructure some document of the cube (reports are produced)."""
    from vlib.sym import assume, pinned

    assume(0 <= l1 < len(T.LEAVES) and 0 <= l2 < len(T.LEAVES))
    markup = T.compose(c1, c2, pinned(l1), pinned(l2))
    tree = T.build_tree(markup)
    advtree, treecleaner, _ = T.mods()
    tc = treecleaner.TreeCleaner(tree, save_reports=True)
    import sys
    old = sys.stdout
    sys.stdout = T._NullOut()
    try:
        tc.clean_all()
    finally:
        sys.stdout = old
    if tc.get_reports():
        return {"reached": "cleaner reports", "markup": markup}
    return None


def build(tier: str, props=PROPS, pid="C06") -> CheckSpec:
    advtree, treecleaner, uparser = T.mods()
    import os

    if os.environ.get("VERIF_TREE_BOTH"):  # bug-hunting runs (tools/deep_tree.sh): one exploration judged by the C05 and the C06 oracles
        props = ("C05", "C06")
    cubes = []
    q = tier == "quick"
    tmo = 240 if q else 1800
    nC = len(T.CONTAINERS)
    for c1 in range(nC):
        inner = [0] if q else range(nC)
        for c2 in inner:
            cubes.append(Cube(f"shape {T.CONTAINERS[c1][0]}({T.CONTAINERS[c2][0]}(L1) L2)", h_shape, {"l1": int, "l2": int},
                              {"c1": c1, "c2": c2, "props": props}, timeout=tmo, per_path_timeout=30, group="shape"))
    if q:
        for c1n, c2n in (("table2x2", "div"), ("div", "table2x2"), ("ul", "table1"), ("table1", "ul"), ("section", "table2x2"), ("ref", "div"),
                         ("table2x2", "center"), ("center", "underline"), ("dl", "table1"), ("pre", "ul"), ("table1", "section"), ("italic", "center"),
                         ("dl", "div"), ("spacepre", "span"), ("table-stray", "table1")):
            cubes.append(Cube(f"shape {c1n}({c2n}(L1) L2)", h_shape, {"l1": int, "l2": int},
                              {"c1": T.cidx(c1n), "c2": T.cidx(c2n), "props": props}, timeout=tmo, per_path_timeout=30, group="shape"))
    else:
        for c1n in ("none", "table2x2", "div", "section", "ul"):
            cubes.append(Cube(f"shape3 {c1n}(none(L1) L2) L3", h_shape3, {"l1": int, "l2": int, "l3": int},
                              {"c1": T.cidx(c1n), "c2": 0, "props": props}, timeout=tmo, per_path_timeout=30, group="shape3"))
    # size heuristics: a first leaf just above each size threshold harvested from the cleaner's source
    sized_pairs = [(c, "none") for c in ("none", "div", "table1", "table2x2", "late-table1", "late-table2x2", "ul", "section", "sup", "ref", "caption", "center-in-cell", "dl", "blockquote")]
    sized_pairs += [("table1", "table1"), ("late-table1", "table1"), ("div", "table1"), ("table2x2", "div")]
    l2set = tuple(T.lidx(n) for n in (("word", "image", "table", "gallery") if q else ("word", "image", "table", "list", "gallery", "ref", "heading", "big-nested-table")))
    for c1n, c2n in sized_pairs:
        cubes.append(Cube(f"sized {c1n}({c2n}(SIZED) L2)", h_sized, {"sidx": int, "l2": int},
                          {"c1": T.cidx(c1n), "c2": T.cidx(c2n), "props": props, "l2set": l2set}, timeout=tmo, per_path_timeout=60, group="sized"))
    sensitive, methods = T.attr_sensitive_passes()
    shapes = list(range(len(T.ATTR_SHAPES))) if not q else list(T.QUICK_ATTR_SHAPES)
    for sh in shapes:
        for k in sensitive:
            if q and T.PASS_USES_LENGTH[k] and sh not in T.QUICK_LENGTH_SHAPES:
                continue
            cubes.append(Cube(f"attrs {'/'.join(map(str, T.ATTR_SHAPES[sh]))} pass#{k} {methods[k]}", h_attr,
                              {"sid": str, "scls": str, "skey": int, "sval": str, "hidx": int},
                              {"shape": sh, "pass_index": k, "props": props, "keys": T.PASS_STYLE_KEYS[k], "lengths": T.PASS_USES_LENGTH[k]},
                              allow_empty=True, timeout=((200 if T.PASS_USES_LENGTH[k] else 60) if ("C06" in props or sh in (18, 19)) else 30) if q else 900, per_path_timeout=20, group="attrs:" + methods[k]))
    cubes.append(Cube("twin: passes restructure a document", twin_pass_changes_tree, {"l1": int, "l2": int}, {"c1": T.cidx("table2x2"), "c2": 0},
                      timeout=120, role="twin"))
    return CheckSpec(
        property_id=pid,
        level="other",
        cubes=cubes,
        functions=[treecleaner.TreeCleaner, advtree.build_advanced_tree, advtree.AdvancedNode, advtree._validate_parser_tree, advtree._validate_parents],
        bounds={"documents": "C1( C2( L1 ) L2 )" + ("" if q else " and C1(L1 L2) + blank line + L3"),
                "containers": [c[0] for c in T.CONTAINERS], "leaves": [l[0] for l in T.LEAVES],
                "container pairs": "every C1 with C2=none plus 15 selected pairs" if q else "all pairs",
                "sized leaves": {"thresholds harvested from the source": T.harvest_thresholds(), "leaves": [n for n, _ in T.sized_leaves()],
                                 "documents": ["%s(%s(SIZED) L2)" % p_ for p_ in sized_pairs], "L2": [T.LEAVES[i][0] for i in l2set]},
                "attribute documents": [list(T.ATTR_SHAPES[i]) for i in shapes],
                "attribute-sensitive passes (from the current source)": [methods[k] for k in sensitive],
                "symbolic attributes": "id (<= 14 chars), class (<= 14 chars), one style declaration: key among those the pass reads (harvested from its source; all of %r if none), value symbolic (<= 8 chars); height from %r by a symbolic index, width fixed" % (T.STYLE_KEYS, T.LENGTHS),
                "fixed-point budget": "4*n^2+8 iterations of _fix_paragraphs/_fix_nesting per pass (n = nodes of the tree)"},
        stubs=["parse_string + build_advanced_tree run outside the tracer on the concrete markup of the path (their output is the pre-state of the passes)",
               "sys.stdout silenced while a pass runs"],
        assumptions=["document shapes are those the real parser produces from the fragment catalogue (reachable by construction); symbolic attribute values are injected into the parsed "
                     "tree's vlist and must survive the wikitext attribute parser in the replay to count",
                     "fragment choices are pinned (enumerated by the solver); the attribute strings are genuinely symbolic"],
        outside=["documents outside the fragment grammar (deeper nesting, more than three leaves), size heuristics needing large tables", "float()-parsed style lengths other than the fixed companions"],
        explanation="bounded symbolic execution of the real TreeCleaner passes, one by one in cleaner_methods order, on documents composed from a fragment catalogue; id / class / style value of one node "
        "are symbolic strings so that z3 produces the magic values that switch passes on; every counterexample is replayed through parse_string with the values written into the markup",
        replay=replay,
    )


def replay(cand: dict) -> dict:
    return T.replay_tree(cand, PROPS)
