"""C12 — title normalization is canonical and idempotent.

Real code: mwlib.core.nshandling.NsHandler.splitname / _find_namespace / maybe_capitalize / get_fqname, on the bundled
siteinfo-*.json files.  Symbolic: the title string (free shape) and the separators / case mask / remainder around a
namespace name of the site (structured shape).
"""
import json
import os

from vlib.runner import CheckSpec, Cube
from vlib.sym import assume, in_alphabet, pinned

LRM, RLM = "‎", "‏"
FREE_ALPHABET_Q = " _:" + LRM + "aAß1"
FREE_ALPHABET_T = " _:\t" + LRM + RLM + "aAßéİ1"
SEP_ALPHABET = " _" + LRM
SEP_ALPHABET_Q = " " + LRM
TITLECASE = "\u01c5"  # a title-case letter (category Lt): neither lower nor upper, yet upper() changes it
REST_ALPHABET = " _aAß1" + TITLECASE + LRM

_handlers = {}


def sites():
    from mwlib.network import siteinfo

    d = os.path.join(os.path.dirname(siteinfo.__file__), "known_sites")
    return sorted(f[len("siteinfo-"):-len(".json")] for f in os.listdir(d) if f.startswith("siteinfo-") and f.endswith(".json"))


def handler(lang):
    if lang not in _handlers:
        import mwlib.core.metabook  # noqa: F401
        from mwlib.core import nshandling
        from mwlib.network import siteinfo

        si = siteinfo.get_siteinfo(lang)
        if si is None:
            raise RuntimeError(f"no bundled siteinfo for {lang}")
        _handlers[lang] = nshandling.NsHandler(si)
    return _handlers[lang]


_names = {}


def ns_names(lang):
    if lang not in _names:
        _names[lang] = _ns_names(lang)
    return _names[lang]


def _ns_names(lang):
    """[(spelling, nsid)] for every local / canonical / alias namespace name of the site (non-empty names)."""
    h = handler(lang)
    out = []
    seen = set()
    for ns in h.siteinfo["namespaces"].values():
        for key in ("*", "canonical"):
            n = ns.get(key)
            if n and (n.lower(), ns["id"]) not in seen:
                seen.add((n.lower(), ns["id"]))
                out.append((n, ns["id"]))
    for al in h.siteinfo.get("namespacealiases", []):
        if al["*"] and (al["*"].lower(), al["id"]) not in seen:
            seen.add((al["*"].lower(), al["id"]))
            out.append((al["*"], al["id"]))
    # a name that means different namespaces depending on lookup order is ambiguous in the site data itself
    byname = {}
    for n, i in out:
        byname.setdefault(n.lower(), set()).add(i)
    return [(n, i) for n, i in out if len(byname[n.lower()]) == 1]


# ---------------------------------------------------------------------------- reference


def ref_edges(s):
    """strip whitespace and bidi marks at both edges (to a fixed point)"""
    while True:
        t = s.strip().strip(LRM + RLM)
        if t == s:
            return s
        s = t


def ref_rest(rest):
    out = []
    prev_space = False
    for ch in rest.replace("_", " "):
        if ch == " ":
            if not prev_space:
                out.append(ch)
            prev_space = True
        else:
            out.append(ch)
            prev_space = False
    return ref_edges("".join(out))


def has_letter(s):
    for ch in s:
        if ch in "aAß1éİ" + TITLECASE:
            return True
    return False


def check_idempotent(lang, title, defaultns):
    h = handler(lang)
    ns, partial, full = h.splitname(title, defaultns)
    ns2, partial2, full2 = h.splitname(full, 0)
    if full2 != full or ns2 != ns:
        return {"sig": "not-idempotent", "lang": lang, "title": title, "defaultns": defaultns,
                "first": [ns, partial, full], "second": [ns2, partial2, full2]}
    star = h.siteinfo["namespaces"][str(ns)]["*"]
    expect = (star + ":" if star else "") + partial
    if full != expect:
        return {"sig": "full-name-not-prefix-plus-partial", "lang": lang, "title": title, "defaultns": defaultns,
                "got": [ns, partial, full], "expected_full": expect}
    return None


def h_free(title: str, maxlen: int, lang: str, defaultns: int, alphabet: str):
    """Any short string that is a page-title spelling: idempotence and prefix+partial form."""
    assume(len(title) <= maxlen)
    assume(in_alphabet(title, alphabet))
    title = pinned(title)
    assume(has_letter(title))
    # a title spelling has at most one leading colon and a non-empty remainder that does not start with a colon
    core = ref_edges(title.replace("_", " "))
    if core.startswith(":"):
        core = ref_edges(core[1:])
    assume(not core.startswith(":"))
    return check_idempotent(lang, title, defaultns)


def h_struct(idx: int, upper_first: bool, upper_all: bool, lead: str, colon: bool, sp1: str, mid: str, rest: str,
             lang: str, defaultns: int, restlen: int, lo: int, hi: int, sep: str = SEP_ALPHABET, lite: bool = False):
    """lead + ':'? + NAMESPACE (re-cased) + sp1 + ':' + mid + rest  ->  canonical triple of the site."""
    names = ns_names(lang)
    assume(lo <= idx < hi and idx < len(names))
    if lite:  # every name of the site in three casings, nothing else varies
        assume(not colon and len(lead) == 0 and len(sp1) == 0 and len(mid) == 0 and rest == "a")
    assume(len(lead) <= 1 and len(sp1) <= 1 and len(mid) <= 1 and len(rest) <= restlen)
    assume(in_alphabet(lead, sep) and in_alphabet(sp1, " _" if "_" in sep else " ") and in_alphabet(mid, sep))
    assume(in_alphabet(rest, REST_ALPHABET if restlen > 1 else "aAß1" + TITLECASE))
    lead, sp1, mid, rest = pinned(lead), pinned(sp1), pinned(mid), pinned(rest)
    assume(has_letter(rest))
    name, nsid = names[idx]
    if upper_all:
        spelled = name.upper()
    elif upper_first:
        spelled = name[:1].upper() + name[1:].lower()
    else:
        spelled = name.lower()
    # re-casing must not leave the site's own name set (e.g. 'ß'.upper() == 'SS')
    assume(spelled.lower() == name.lower())
    title = lead + (":" if colon else "") + spelled.replace(" ", "_" if sp1 == "_" else " ") + sp1 + ":" + mid + rest
    h = handler(lang)
    ns, partial, full = h.splitname(title, defaultns)
    want_rest = ref_rest(mid + rest)
    if h.siteinfo["general"].get("case") == "first-letter":
        want_rest = want_rest[:1].upper() + want_rest[1:]
    star = h.siteinfo["namespaces"][str(nsid)]["*"]
    want_full = (star + ":" if star else "") + want_rest
    if ns != nsid or partial != want_rest or full != want_full:
        return {"sig": "spelling-not-canonical", "lang": lang, "title": title, "defaultns": defaultns,
                "got": [ns, partial, full], "expected": [nsid, want_rest, want_full]}
    return check_idempotent(lang, title, defaultns)


def h_plain(lead: str, colon: bool, rest: str, lang: str, defaultns: int, restlen: int):
    """No namespace part: the default namespace applies (a leading colon forces the main namespace)."""
    assume(len(lead) <= 1 and len(rest) <= restlen)
    assume(in_alphabet(lead, SEP_ALPHABET) and in_alphabet(rest, REST_ALPHABET))
    lead, rest = pinned(lead), pinned(rest)
    assume(has_letter(rest))
    title = lead + (":" if colon else "") + rest
    h = handler(lang)
    ns, partial, full = h.splitname(title, defaultns)
    nsid = 0 if colon else defaultns
    want_rest = ref_rest(rest)
    if h.siteinfo["general"].get("case") == "first-letter":
        want_rest = want_rest[:1].upper() + want_rest[1:]
    star = h.siteinfo["namespaces"][str(nsid)]["*"]
    want_full = (star + ":" if star else "") + want_rest
    if ns != nsid or partial != want_rest or full != want_full:
        return {"sig": "spelling-not-canonical", "lang": lang, "title": title, "defaultns": defaultns,
                "got": [ns, partial, full], "expected": [nsid, want_rest, want_full]}
    return check_idempotent(lang, title, defaultns)


def two_word_ns(lang):
    for n, i in ns_names(lang):
        if " " in n:
            return n, i
    return None, None


def h_runs(run1: str, run2: str, lang: str, maxlen: int):
    """Separator runs mixing spaces and underscores inside the remainder and inside a two-word namespace name."""
    assume(1 <= len(run1) <= maxlen and 1 <= len(run2) <= maxlen)
    assume(in_alphabet(run1, " _") and in_alphabet(run2, " _"))
    run1, run2 = pinned(run1), pinned(run2)
    h = handler(lang)
    name, nsid = two_word_ns(lang)
    if name is None:
        title = "a" + run1 + "b" + run2 + "c"
        want = [0, "A b c", "A b c"] if h.siteinfo["general"].get("case") == "first-letter" else [0, "a b c", "a b c"]
    else:
        first, second = name.split(" ", 1)
        title = first + run1 + second + ":a" + run2 + "b"
        star = h.siteinfo["namespaces"][str(nsid)]["*"]
        rest = "A b" if h.siteinfo["general"].get("case") == "first-letter" else "a b"
        want = [nsid, rest, star + ":" + rest]
    ns, partial, full = h.splitname(title, 0)
    if [ns, partial, full] != want:
        return {"sig": "spelling-not-canonical", "lang": lang, "title": title, "defaultns": 0, "got": [ns, partial, full], "expected": want}
    return check_idempotent(lang, title, 0)


def h_plain_colon(lead: str, colon: bool, x: str, y: str, lang: str, defaultns: int):
    """A remainder that contains a colon whose left side is NOT a namespace name ('2001: A Space Odyssey'): the default
    namespace applies, and a leading colon forces the main namespace."""
    assume(len(lead) <= 1 and len(x) <= 1 and len(y) <= 2)
    assume(in_alphabet(lead, SEP_ALPHABET) and in_alphabet(x, "a1 ") and in_alphabet(y, " _aA1"))
    lead, x, y = pinned(lead), pinned(x), pinned(y)
    assume(has_letter(y))
    left = "1" + x  # starts with a digit: no site has such a namespace name
    title = lead + (":" if colon else "") + left + ":" + y
    h = handler(lang)
    ns, partial, full = h.splitname(title, defaultns)
    nsid = 0 if colon else defaultns
    want_rest = ref_rest(left + ":" + y)
    star = h.siteinfo["namespaces"][str(nsid)]["*"]
    want_full = (star + ":" if star else "") + want_rest
    if ns != nsid or partial != want_rest or full != want_full:
        return {"sig": "spelling-not-canonical", "lang": lang, "title": title, "defaultns": defaultns,
                "got": [ns, partial, full], "expected": [nsid, want_rest, want_full]}
    return None


def twin_ns(title: str, lang: str):
    """Reachability: a symbolic title does resolve to a non-main namespace."""
    assume(len(title) <= 2)
    assume(in_alphabet(title, ":x"))
    title = "talk" + pinned(title)
    ns, partial, full = handler(lang).splitname(title, 0)
    if ns != 0:
        return {"reached": [ns, full]}
    return None


def build(tier: str) -> CheckSpec:
    import mwlib.core.metabook  # noqa
    from mwlib.core import nshandling

    all_sites = sites()
    cubes = []
    if tier == "quick":
        langs, free_len, alphabet, restlen, tmo = ["en", "de"], 3, FREE_ALPHABET_Q, 1, 300
        defaults = [0, 10]
        chunk = 6
        sep = SEP_ALPHABET_Q
    else:
        langs, free_len, alphabet, restlen, tmo = all_sites, 4, FREE_ALPHABET_T, 3, 1800
        defaults = [0, 6, 10]
        chunk = 2
        sep = SEP_ALPHABET
    for lang in langs:
        for d in defaults:
            if tier == "quick" and not (lang == "en" or d == 0):
                continue
            cubes.append(Cube(f"free[{lang},ns{d}]<={free_len}", h_free, {"title": str},
                              {"maxlen": free_len, "lang": lang, "defaultns": d, "alphabet": alphabet}, timeout=tmo, per_path_timeout=60, group=f"free-{lang}"))
            cubes.append(Cube(f"plain-with-colon[{lang},ns{d}]", h_plain_colon, {"lead": str, "colon": bool, "x": str, "y": str},
                              {"lang": lang, "defaultns": d}, timeout=tmo, per_path_timeout=60, group=f"plain-{lang}"))
            cubes.append(Cube(f"plain[{lang},ns{d}]", h_plain, {"lead": str, "colon": bool, "rest": str},
                              {"lang": lang, "defaultns": d, "restlen": restlen}, timeout=tmo, per_path_timeout=60, group=f"plain-{lang}"))
        cubes.append(Cube(f"runs[{lang}]", h_runs, {"run1": str, "run2": str}, {"lang": lang, "maxlen": 3 if tier == "quick" else 4},
                          timeout=tmo, per_path_timeout=60, group=f"runs-{lang}"))
        n = len(ns_names(lang))
        for lo in range(0, n, chunk):
            cubes.append(Cube(f"struct[{lang}] names {lo}..{min(lo+chunk, n)-1}", h_struct,
                              {"idx": int, "upper_first": bool, "upper_all": bool, "lead": str, "colon": bool, "sp1": str, "mid": str, "rest": str},
                              {"lang": lang, "defaultns": 0, "restlen": restlen, "lo": lo, "hi": lo + chunk, "sep": sep}, timeout=tmo, per_path_timeout=60,
                              group=f"struct-{lang}"))
    for lang in all_sites:
        if lang in langs:
            continue
        # the other bundled sites: every namespace name x three casings (cheap; their full treatment is in the thorough tier)
        cubes.append(Cube(f"names[{lang}]", h_struct,
                          {"idx": int, "upper_first": bool, "upper_all": bool, "lead": str, "colon": bool, "sp1": str, "mid": str, "rest": str},
                          {"lang": lang, "defaultns": 0, "restlen": 1, "lo": 0, "hi": 10 ** 6, "sep": sep, "lite": True}, timeout=tmo, per_path_timeout=60,
                          group=f"names-{lang}"))
    cubes.append(Cube("twin: namespace resolution reachable", twin_ns, {"title": str}, {"lang": "en"}, timeout=120, per_path_timeout=60, role="twin"))
    return CheckSpec(
        property_id="C12",
        level="other",
        cubes=cubes,
        functions=[nshandling.NsHandler.splitname, nshandling.NsHandler._find_namespace, nshandling.NsHandler.maybe_capitalize,
                   nshandling.NsHandler.get_fqname],
        bounds={"sites": langs, "all_bundled_sites": all_sites, "free_title_max_len": free_len, "free_alphabet": alphabet,
                "structured": "lead(<=1) ':'? NAMESPACE(lower | Capitalised | UPPER; every local/canonical/alias name of the site) sep(<=1) ':' mid(<=1) rest(<=%d)" % restlen,
                "separator_alphabet": sep, "separator runs": "two runs of 1..%d characters over space/underscore inside the remainder and inside a two-word namespace name" % (3 if tier == "quick" else 4), "rest_alphabet": REST_ALPHABET, "default_namespaces": defaults,
                "other_sites": "every local/canonical/alias namespace name of every other bundled site in three casings followed by ':a' (cubes names[<site>])"},
        stubs=["none (siteinfo JSON files are read as configuration data)"],
        assumptions=["a page-title spelling has at most one leading colon, a remainder that does not start with a colon, and at least one letter/digit",
                     "idempotence is judged by re-normalizing the full name with default namespace 0 (a main-namespace full name carries no prefix)",
                     "expected capitalisation = first character upper-cased by str.upper where the site says first-letter",
                     "namespace names that the site data maps to two different ids are skipped (ambiguous configuration)"],
        outside=["titles longer than the bound / other characters", "bidi marks in the middle of a title", "interwiki prefixes", "arbitrary per-letter case masks of namespace names (three casings are used)"],
        explanation="bounded symbolic execution of the real splitname on symbolic title strings per bundled site; z3 decides every branch (including the regex "
        "' +' through CrossHair's regex model); counterexamples are replayed on the real function in plain Python",
        replay=replay,
        setup=setup,
    )


def setup():
    """configuration data is loaded before tracing starts"""
    for lang in sites():
        ns_names(lang)


def replay(cand: dict) -> dict:
    d = cand.get("concrete", {}).get("detail")
    if not isinstance(d, dict):
        return {"reproduced": False, "error": "no concrete detail"}
    h = handler(d["lang"])
    title, dn = d["title"], d["defaultns"]
    ns, partial, full = h.splitname(title, dn)
    ns2, partial2, full2 = h.splitname(full, 0)
    if d["sig"] == "not-idempotent":
        ok = (full2 != full or ns2 != ns)
        edge = "bidi-mark" if (LRM in title or RLM in title) else "plain"
        return {"reproduced": ok, "signature": f"C12|not-idempotent|{edge}",
                "what": f"splitname({title!r}, {dn}) = {(ns, partial, full)!r} but splitname of that full name = {(ns2, partial2, full2)!r} [{d['lang']}]"}
    if d["sig"] == "spelling-not-canonical":
        exp = d["expected"]
        ok = [ns, partial, full] != exp
        edge = "bidi-mark" if (LRM in title or RLM in title) else "plain"
        return {"reproduced": ok, "signature": f"C12|spelling-not-canonical|{edge}",
                "what": f"splitname({title!r}, {dn}) = {(ns, partial, full)!r}, canonical form is {exp!r} [{d['lang']}]"}
    star = h.siteinfo["namespaces"][str(ns)]["*"]
    expect = (star + ":" if star else "") + partial
    return {"reproduced": full != expect, "signature": "C12|" + d["sig"], "what": f"splitname({title!r}, {dn}) = {(ns, partial, full)!r}"}
