"""C01 — parsing is total: the numeric / entity conversion kernels of the parser never raise and do bounded work.

Only the Python leaf kernels that turn author-chosen digits and words into numbers and characters are encoded
(the scanner is C++, the 20 refinement passes are regex driven: see DESIGN.md §4 C01 for what is outside).
Every kernel counterexample is lifted to an article and replayed through uparser.parse_string.
"""
from vlib.runner import CheckSpec, Cube
from vlib.sym import assume, in_alphabet, pinned

WORK_BASE, WORK_PER_CHAR = 1000, 16


class WorkBound(Exception):
    pass


def _mods():
    import mwlib.core.metabook  # noqa: F401
    from mwlib.parser import advtree, styleanalyzer
    from mwlib.parser.refine import core, util

    return util, styleanalyzer, advtree, core


def _call(fn, *a):
    """run a kernel; any exception of the code under test is the violation"""
    try:
        fn(*a)
    except Exception as e:
        return type(e).__name__
    return None


# ---------------------------------------------------------------------------- harnesses


def h_entity_dec(n: int, lo: int, hi: int):
    util = _mods()[0]
    assume(lo <= n < hi)
    ent = "&#" + str(n) + ";"
    exc = _call(util.resolve_entity, ent)
    if exc:
        return {"sig": "resolve_entity|" + exc, "entity": ent, "kernel": "resolve_entity"}
    return None


def h_entity_hex(digits: str, maxlen: int, prefix: str, x: str):
    util = _mods()[0]
    assume(len(digits) <= maxlen)
    assume(in_alphabet(digits, "08f"))
    ent = "&#" + x + prefix + pinned(digits) + ";"
    exc = _call(util.resolve_entity, ent)
    if exc:
        return {"sig": "resolve_entity|" + exc, "entity": ent, "kernel": "resolve_entity"}
    return None


def h_entities_text(txt: str, maxlen: int):
    util = _mods()[0]
    assume(len(txt) <= maxlen)
    assume(in_alphabet(txt, "&#;x9"))
    txt = pinned(txt)
    try:
        r = util.replace_html_entities(txt)
    except Exception as e:
        return {"sig": "replace_html_entities|" + type(e).__name__, "text": txt, "kernel": "replace_html_entities"}
    if not isinstance(r, str):
        return {"sig": "replace_html_entities|not-a-string", "text": txt, "kernel": "replace_html_entities"}
    return None


def h_compute_path(c1: int, c2: int, c3: int, c4: int, c5: int, n: int):
    sa = _mods()[1]
    counts = [c1, c2, c3, c4, c5][:n]
    for c in counts:
        assume(2 <= c <= 40)  # the scanner emits runs of >= 2 apostrophes
    _deterministic_state_order(sa)
    depth = _track_depth(sa)
    depth["cur"] = depth["max"] = 0
    try:
        res = sa.compute_path(counts)
    except Exception as e:
        return {"sig": "compute_path|" + type(e).__name__, "counts": counts, "kernel": "compute_path"}
    # the analysis is iterative over the runs: its call depth must not grow with the length of a run (a run of n
    # apostrophes would otherwise hit the interpreter's recursion limit for n around 1000)
    if depth["max"] > DEPTH_LIMIT:
        return {"sig": "compute_path|call-depth-grows-with-run-length", "counts": counts, "kernel": "compute_path", "depth": depth["max"], "amplify": True}
    if len(res) != len(counts):
        return {"sig": "compute_path|wrong-length", "counts": counts, "kernel": "compute_path"}
    return None


_seq = [0]
DEPTH_LIMIT = 12  # calls of the module's own functions nested inside one compute_path (3 on the unchanged code)
_depth = {"cur": 0, "max": 0}


def _track_depth(sa):
    """wrap every function / State method the module defines (from its current source) with a nesting counter"""
    import types

    if getattr(sa, "_verif_depth", False):
        return _depth

    def wrap(fn):
        def inner(*a, **k):
            _depth["cur"] += 1
            if _depth["cur"] > _depth["max"]:
                _depth["max"] = _depth["cur"]
            try:
                return fn(*a, **k)
            finally:
                _depth["cur"] -= 1
        inner.__wrapped__ = fn
        return inner

    for name, v in list(vars(sa.State).items()):
        if isinstance(v, types.FunctionType) and not name.startswith("__"):
            setattr(sa.State, name, wrap(v))
    for name, v in list(vars(sa).items()):
        if isinstance(v, types.FunctionType) and v.__module__ == sa.__name__ and name != "compute_path":
            setattr(sa, name, wrap(v))
    sa._verif_depth = True
    return _depth



def _deterministic_state_order(sa):
    """State.__lt__ orders equal-cost states by id() (memory address): an environment value.  It is replaced by the
    creation order, which is what CPython's allocator gives in practice and keeps re-execution deterministic."""
    if getattr(sa.State, "_verif_ordered", False):
        return
    orig_init = sa.State.__init__

    def init(self, **kw):
        orig_init(self, **kw)
        _seq[0] += 1
        self.__dict__["_verif_seq"] = _seq[0]

    def clone(self, **kw):
        d = dict(self.__dict__)
        d.pop("_verif_seq", None)
        st = sa.State(**d)
        st.__dict__.update(kw)
        return st

    sa.State.__init__ = init
    sa.State.clone = clone
    sa.State.__lt__ = lambda a, b: a._verif_seq < b._verif_seq
    sa.State._verif_ordered = True


def h_img_width(m: str, maxlen: int):
    util = _mods()[0]
    assume(len(m) <= maxlen)
    assume(in_alphabet(m, "x09"))
    m = pinned(m)

    class Img:
        pass

    exc = _call(util.handle_img_width, Img(), m)
    if exc:
        return {"sig": "handle_img_width|" + exc, "mod": m + "px", "kernel": "handle_img_width"}
    return None


def h_img_width_num(w: int, h: int, hasx: bool):
    util = _mods()[0]
    assume(0 <= w < 10**10 and 0 <= h < 10**10)

    class Img:
        pass

    m = str(w) + ("x" + str(h) if hasx else "")
    exc = _call(util.handle_img_width, Img(), m)
    if exc:
        return {"sig": "handle_img_width|" + exc, "mod": m + "px", "kernel": "handle_img_width"}
    return None


def h_img_upright(m: str, maxlen: int):
    util = _mods()[0]
    assume(len(m) <= maxlen)
    assume(in_alphabet(m, ".09"))
    m = pinned(m)

    class Img:
        pass

    exc = _call(util.handle_img_upright, Img(), m)
    if exc:
        return {"sig": "handle_img_upright|" + exc, "mod": "upright=" + m, "kernel": "handle_img_upright"}
    return None


def h_parse_params(s: str, maxlen: int):
    util = _mods()[0]
    assume(len(s) <= maxlen)
    assume(in_alphabet(s, "a=1\";:\u00b2"))  # incl. a character that str.isdigit() accepts and int() rejects
    s = pinned(s)
    try:
        r = util.parse_params(s)
    except Exception as e:
        return {"sig": "parse_params|" + type(e).__name__, "params": s, "kernel": "parse_params"}
    if not isinstance(r, dict):
        return {"sig": "parse_params|not-a-dict", "params": s, "kernel": "parse_params"}
    return None


def h_html_tag(body: str, maxlen: int, closing: bool, selfclosing: bool):
    """utoken._analyze_html_tag on '<' + body + '>' (the scanner hands it everything between angle brackets that looks like a tag)"""
    from mwlib.parser.token import utoken

    assume(len(body) <= maxlen)
    assume(in_alphabet(body, "a1 =\"/-"))
    body = pinned(body)
    assume(body[:1] == "a")  # the scanner only emits t_html_tag for '<' '/'? letter ...
    text = ("</" if closing else "<") + body + ("/>" if selfclosing else ">")

    class Tag:
        t_html_tag_end = 99

    tag = Tag()
    tag.text = text
    try:
        utoken._analyze_html_tag(tag)
    except Exception as e:
        return {"sig": "_analyze_html_tag|" + type(e).__name__, "tag": text, "kernel": "_analyze_html_tag"}
    return None


def h_imagemod(mod: str, maxlen: int):
    """ImageMod.parse + handle_imagemod on one image modifier"""
    util = _mods()[0]
    assume(len(mod) <= maxlen)
    assume(in_alphabet(mod, "px0x=u. "))
    mod = pinned(mod)

    class Img:
        pass

    try:
        im = util.ImageMod()
        t, m = im.parse(mod)
        if t:
            util.handle_imagemod(Img(), t, m)
    except Exception as e:
        return {"sig": "imagemod|" + type(e).__name__, "mod": mod, "kernel": "handle_img_width"}
    return None


def h_ensure_int(v: str, maxlen: int):
    advtree = _mods()[2]
    assume(len(v) <= maxlen)
    assume(in_alphabet(v, "-+19 ._\u00b2"))
    v = pinned(v)
    try:
        r = advtree.AdvancedNode._ensure_int(None, v, 1)
    except Exception as e:
        return {"sig": "_ensure_int|" + type(e).__name__, "value": v, "kernel": "_ensure_int"}
    if not isinstance(r, int) or r < 1:
        return {"sig": "_ensure_int|not-a-positive-int", "value": v, "kernel": "_ensure_int"}
    return None


def h_pages(a: int, b: int):
    """<pages from=a to=b index=x/>: the number of page templates generated must stay proportional to the input."""
    core = _mods()[3]
    assume(0 <= a < 10**12 and 0 <= b < 10**12)
    sa, sb = str(a), str(b)
    budget = WORK_BASE + WORK_PER_CHAR * (len(sa) + len(sb) + 30)
    made = []

    class NS:
        def _find_namespace(self, name):
            return (True, 104, "Page")

        def get_fqname(self, t, ns):
            return "Page:" + t

    class Exp:
        nshandler = NS()
        pagename = "p"
        db = None
        uniquifier = None

        def __init__(self, raw=None, pagename=None, wikidb=None):
            made.append(raw)

        def expandTemplates(self, flag):
            return ""

    class X:
        expander = Exp.__new__(Exp)

    def guarded_range(*args):
        r = range(*args)
        if len(r) > budget:
            raise WorkBound(len(r))
        return r

    pu = core.ParseUniq.__new__(core.ParseUniq)
    old_range = core.__dict__.get("range")
    old_parse = core.parse_txt
    core.range = guarded_range
    core.parse_txt = lambda *a, **k: []
    try:
        try:
            pu.create_pages("pages", {"from": sa, "to": sb, "index": "x"}, None, X())
        except WorkBound:
            return {"sig": "create_pages|unbounded-work", "from": sa, "to": sb, "kernel": "create_pages"}
        except Exception as e:
            return {"sig": "create_pages|" + type(e).__name__, "from": sa, "to": sb, "kernel": "create_pages"}
    finally:
        core.parse_txt = old_parse
        if old_range is None:
            del core.range
        else:
            core.range = old_range
    return None


def twin_entity(n: int):
    """Reachability: a numeric entity IS resolved to a character."""
    util = _mods()[0]
    assume(0 < n < 200)
    ent = "&#" + str(n) + ";"
    r = util.resolve_entity(ent)
    if r != ent and len(r) == 1:
        return {"reached": [ent, r]}
    return None


def twin_pages(a: int, b: int):
    """Reachability: create_pages does reach the page-range generation."""
    core = _mods()[3]
    assume(0 <= a <= b < 5)
    seen = []

    class NS:
        def _find_namespace(self, name):
            return (True, 104, "Page")

        def get_fqname(self, t, ns):
            return "Page:" + t

    class Exp:
        nshandler = NS()
        pagename = "p"
        db = None
        uniquifier = None

        def __init__(self, raw=None, pagename=None, wikidb=None):
            seen.append(raw)

        def expandTemplates(self, flag):
            return ""

    class X:
        expander = Exp.__new__(Exp)

    old_parse = core.parse_txt
    core.parse_txt = lambda *a, **k: []
    try:
        pu = core.ParseUniq.__new__(core.ParseUniq)
        pu.create_pages("pages", {"from": str(a), "to": str(b), "index": "x"}, None, X())
    finally:
        core.parse_txt = old_parse
    if seen and "{{Page:x/" in seen[0]:
        return {"reached": seen[0]}
    return None


def build(tier: str) -> CheckSpec:
    util, sa, advtree, core = _mods()
    q = tier == "quick"
    tmo = 200 if q else 1500
    cubes = []
    edges = [-1000, 0, 1000, 10**6, 10**9, 10**10, 10**11] if q else [-(10**6), -1000, 0, 1000, 10**6, 10**9, 10**10, 10**11, 10**12, 10**13]
    for lo, hi in zip(edges, edges[1:]):
        cubes.append(Cube(f"entity decimal {lo} <= n < {hi}", h_entity_dec, {"n": int}, {"lo": lo, "hi": hi}, timeout=tmo, group="resolve_entity"))
    hexlen = 7 if q else 8
    for x in "xX":
        for pre in ("", "8", "f", "F", "-", "+8", "0x8", " 8"):
            if x == "X" and pre not in ("8",):
                continue
            cubes.append(Cube(f"entity hex &#{x}{pre}+<={hexlen}", h_entity_hex, {"digits": str},
                              {"maxlen": hexlen, "prefix": pre, "x": x}, timeout=tmo, group="resolve_entity"))
    cubes.append(Cube("entities in text", h_entities_text, {"txt": str}, {"maxlen": 5 if q else 6}, timeout=tmo, group="replace_html_entities"))
    for n in range(1, (3 if q else 4) + 1):
        cubes.append(Cube(f"compute_path {n} runs", h_compute_path, {f"c{i}": int for i in range(1, 6)}, {"n": n}, timeout=tmo, group="compute_path"))
    cubes.append(Cube("img width pinned", h_img_width, {"m": str}, {"maxlen": 6 if q else 8}, timeout=tmo, group="imagemod"))
    cubes.append(Cube("img width numbers < 10^10", h_img_width_num, {"w": int, "h": int, "hasx": bool}, {}, timeout=tmo, group="imagemod"))
    cubes.append(Cube("img upright pinned", h_img_upright, {"m": str}, {"maxlen": 6 if q else 8}, timeout=tmo, group="imagemod"))
    cubes.append(Cube("parse_params pinned", h_parse_params, {"s": str}, {"maxlen": 4 if q else 6}, timeout=tmo, group="parse_params"))
    cubes.append(Cube("html tag body pinned", h_html_tag, {"body": str, "closing": bool, "selfclosing": bool}, {"maxlen": 4 if q else 5}, timeout=tmo, group="_analyze_html_tag"))
    cubes.append(Cube("image modifier pinned", h_imagemod, {"mod": str}, {"maxlen": 4 if q else 6}, timeout=tmo, group="imagemod"))
    cubes.append(Cube("_ensure_int pinned", h_ensure_int, {"v": str}, {"maxlen": 4 if q else 5}, timeout=tmo, group="_ensure_int"))
    cubes.append(Cube("<pages from to> work bound", h_pages, {"a": int, "b": int}, {}, timeout=tmo, group="create_pages"))
    cubes.append(Cube("twin: entity resolved", twin_entity, {"n": int}, {}, timeout=60, role="twin"))
    cubes.append(Cube("twin: page range generated", twin_pages, {"a": int, "b": int}, {}, timeout=60, role="twin"))
    return CheckSpec(
        property_id="C01",
        level="other",
        cubes=cubes,
        functions=[util.resolve_entity, util.replace_html_entities, sa.compute_path, sa.State.get_next, sa.sort_states,
                   util.handle_img_width, util.handle_img_upright, util.parse_params, advtree.AdvancedNode._ensure_int,
                   core.ParseUniq.create_pages],
        bounds={"decimal entity": "-1000 <= n < 10^11 quick / -10^6 <= n < 10^13 thorough (symbolic int)", "hex entity": f"digit strings <= {hexlen} over 08fF- after a 0/1-char prefix",
                "apostrophe runs": f"1..{3 if q else 4} runs, each 2..40 (symbolic ints)", "image width": "digit strings over x09; w,h < 10^10",
                "pages from/to": "0 <= a,b < 10^12", "work bound": f"{WORK_BASE} + {WORK_PER_CHAR} * input length"},
        stubs=["styleanalyzer.State.__lt__ (ties broken by id(): a memory address) -> creation order", "create_pages: expander / nshandler / parse_txt replaced by recording stubs; `range` in refine.core guarded by the work bound"],
        assumptions=["only exceptions deriving from Exception count as 'raises'", "strings marked 'pinned' are enumerated by the solver, not generalised (vlib.sym.pinned)"],
        outside=["the compiled scanner and every refinement pass (core.py, parse_table.py, tagparser.py): a symbolic article text is realized at the first regex/C call",
                 "polynomial-time behaviour of the passes, nesting depth, template pages behind the article"],
        explanation="bounded symbolic execution of the parser's conversion kernels on symbolic integers / strings; each kernel counterexample is embedded in an article "
        "and replayed through mwlib.parser.refine.uparser.parse_string for every bundled language before it counts",
        replay=replay,
    )


# ---------------------------------------------------------------------------- lift + replay through parse_string


def replay(cand: dict) -> dict:
    import resource
    import signal

    d = cand.get("concrete", {}).get("detail")
    if not isinstance(d, dict):
        return {"reproduced": False, "error": "no concrete detail"}
    import mwlib.core.metabook  # noqa
    from mwlib.parser.templ.misc import DictDB
    from mwlib.parser.refine import uparser

    k = d["kernel"]
    wikidb = None
    raws = None
    if k in ("resolve_entity",):
        e = d["entity"]
        raw = "text " + e + " more"
        # entities are resolved by the scanner's own grammar in running text, but by a looser regex inside nowiki/pre
        raws = [raw, "<nowiki>" + e + "</nowiki>", "<pre>x " + e + " y</pre>", " " + e + " (preformatted line)",
                '<div title="' + e + '">x</div>', "[[Link" + e + "|t" + e + "]]", "<math>" + e + "</math> <source>" + e + "</source>"]
    elif k == "replace_html_entities":
        raw = "<nowiki>" + d["text"] + "</nowiki> " + d["text"]
    elif k == "compute_path":
        raw = " x ".join("'" * c for c in d["counts"]) + " y"
        if d.get("amplify"):
            # the kernel's call depth grows with the run length (bounded to 40 in the symbolic run): same shape, longer runs
            raws = [" x ".join("'" * (c * f) for c in d["counts"]) + " y" for f in (50, 200, 1000)]
    elif k == "_analyze_html_tag":
        raw = "x " + d["tag"] + " y " + d["tag"].replace("<", "</", 1) if not d["tag"].startswith("</") else "x " + d["tag"] + " y"
    elif k in ("handle_img_width", "handle_img_upright"):
        raw = "[[File:x.png|" + d["mod"] + "|caption]]"
    elif k == "parse_params":
        raw = "<div " + d["params"] + ">x</div>\n{| " + d["params"] + "\n| c\n|}"
    elif k == "_ensure_int":
        raw = '{|\n| colspan="' + d["value"] + '" | c\n|}'
    elif k == "create_pages":
        raw = '<pages index="x" from=%s to=%s />' % (d["from"], d["to"])
        wikidb = DictDB()
    else:
        return {"reproduced": False, "error": "unknown kernel " + k}

    class Timeout(Exception):
        pass

    def on_alarm(*a):
        raise Timeout()

    resource.setrlimit(resource.RLIMIT_AS, (2 * 1024**3, 2 * 1024**3))
    failures = []
    for raw in (raws or [raw]):
      for lang in ("en", "de", "fr", "ja"):
          signal.signal(signal.SIGALRM, on_alarm)
          signal.alarm(10)
          try:
              uparser.parse_string("T", raw, wikidb=wikidb, lang=lang)
          except Timeout:
              failures.append((lang, "no result after 10 s (input of %d characters)" % len(raw)))
          except MemoryError:
              failures.append((lang, "MemoryError (2 GiB) for an input of %d characters" % len(raw)))
          except Exception as e:
              failures.append((lang, type(e).__name__ + ": " + str(e)[:100]))
          finally:
              signal.alarm(0)
          if failures:
              break
      if failures:
          break
    if not failures:
        return {"reproduced": False, "not_liftable": True, "what": f"kernel {k} fails on {d} but parse_string({raw!r}) returns normally"}
    kind = failures[0][1].split(":")[0].split(" (")[0]
    return {"reproduced": True, "signature": f"C01|{k}|{kind}", "what": f"parse_string('T', {(raw if len(raw) <= 200 else raw[:80] + '...(%d characters)' % len(raw))!r}, lang={failures[0][0]!r}) -> {failures[0][1]}"}
