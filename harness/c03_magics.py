"""C03 — template expansion always terminates with a string: magic words / parser functions with any arguments.

Real code: magics.MagicResolver.__call__ and every method it can dispatch to (names taken from the class at run
time), evaluate.ArgumentList (loaded from the .pyx source), expr through #expr/#ifexpr.  Symbolic: the number of
arguments and each argument (free short strings, or numerals rendered from unbounded integers).  Oracles: the call
returns None or a str, no exception escapes, and neither the trip count of a loop in magics.py nor the output
length exceeds 1000 + 16 * (total argument length).
"""
from vlib import pyxload

pyxload.install()

from vlib.runner import CheckSpec, Cube  # noqa: E402
from vlib.sym import assume, choose  # noqa: E402

WORK_BASE, WORK_PER_CHAR = 1000, 16
ARG_SHAPES = ["free string", "decimal integer", "negative integer", "decimal fraction", "exponent"]


class WorkBound(BaseException):  # not an Exception: the catch-all of #expr must not swallow it
    pass


_cache = {}


def env():
    if not _cache:
        import mwlib.core.metabook  # noqa: F401
        from mwlib.network import siteinfo
        from mwlib.core import nshandling
        from mwlib.parser.templ import evaluate, magics

        if not getattr(evaluate, "__verif_source_loaded__", False):
            raise RuntimeError("evaluate.pyx was not loaded from source")
        for a in ("MagicResolver",):
            if not hasattr(magics, a):
                raise RuntimeError("stub target magics.%s is gone" % a)
        si = siteinfo.get_siteinfo("en")
        _cache.update(evaluate=evaluate, magics=magics, si=si, nsh=nshandling.NsHandler(si))
    return _cache


def magic_names():
    magics = env()["magics"]
    names = []
    for n in dir(magics.MagicResolver):
        if n.startswith("_") or n != n.upper():
            continue
        if callable(getattr(magics.MagicResolver, n)) or isinstance(getattr(magics.MagicResolver, n), str):
            names.append(n)
    return sorted(names)


def make_resolver():
    e = env()
    r = e["magics"].MagicResolver(pagename="Some page/Sub", revisionid=7)
    r.siteinfo = e["si"]
    r.nshandler = e["nsh"]
    r.wikidb = None
    r.local_values = None
    r.source = {}
    return r


class _Exp:
    recursion_count = 0
    recursion_limit = 100


def render_arg(shape, s, n, m):
    if shape == 0:
        return s
    if shape == 1:
        return str(n)
    if shape == 2:
        return "-" + str(n)
    if shape == 3:
        return str(n) + "." + str(m)
    return str(n) + "e" + str(m)


def call_magic(name, args):
    """One dispatch under the work-bound guards; returns a violation dict or None."""
    e = env()
    magics = e["magics"]
    total = sum(len(a) for a in args) + len(name)
    budget = WORK_BASE + WORK_PER_CHAR * total

    def guarded_range(*a):
        r = range(*a)
        if len(r) > budget:
            raise WorkBound("range of %d" % len(r))
        return r

    had = "range" in magics.__dict__
    old = magics.__dict__.get("range")
    magics.range = guarded_range
    from mwlib.parser import expr as X

    X._cache.clear()  # module-level memo keyed by the expression text: must not leak (symbolic) keys from path to path
    try:
        al = e["evaluate"].ArgumentList(args=tuple(args), expander=_Exp())
        try:
            res = make_resolver()(name, al)
        except WorkBound as w:
            return {"sig": f"{name}|unbounded-work", "name": name, "args": list(args), "detail": str(w)}
        except Exception as ex:
            return {"sig": f"{name}|{type(ex).__name__}", "name": name, "args": list(args), "detail": str(ex)[:160]}
    finally:
        X._cache.clear()
        if had:
            magics.range = old
        else:
            del magics.range
    if res is not None and not isinstance(res, str):
        return {"sig": f"{name}|returned-{type(res).__name__}", "name": name, "args": list(args)}
    if res is not None and len(res) > budget:
        return {"sig": f"{name}|unbounded-output", "name": name, "args": list(args), "detail": "output of %d characters" % len(res)}
    return None


def h_magic(s0: str, s1: str, s2: str, n0: int, m0: int, n1: int, m1: int, name: str, k: int, sh0: int, sh1: int, slen: int):
    """k arguments; argument i < 2 has the fixed shape sh_i, a third argument is a free string"""
    assume(len(s0) <= slen and len(s1) <= slen and len(s2) <= slen)
    args = []
    if k >= 1:
        if sh0 != 0:
            assume(0 <= n0 < 10**5 and 0 <= m0 < 10**5)
        args.append(render_arg(sh0, s0, n0, m0))
    if k >= 2:
        if sh1 != 0:
            assume(0 <= n1 < 10**5 and 0 <= m1 < 10**5)
        args.append(render_arg(sh1, s1, n1, m1))
    if k >= 3:
        args.append(s2)
    return call_magic(name, args)


def h_expr_tokens(n: int, m: int, op: int, fn: str):
    """#expr / #ifexpr on 'n <op> m' with the regex tokenizer stubbed by its token list: numbers stay symbolic through the
    real shunting-yard and operator functions; the exponent of the e-notation / power operators is work-bounded."""
    e = env()
    from mwlib.parser import expr as X

    assume(0 <= n < 10**6 and 0 <= m < 10**6)
    ops = ["e", "^", "*", "+", "mod", "/", "round"]
    o = ops[choose(op, len(ops))]
    sn, sm = str(n), str(m)
    text = sn + " " + o + " " + sm
    budget = WORK_BASE + WORK_PER_CHAR * len(text)
    tokens = [(sn, ""), ((o, "") if o == "e" else ("", o)), (sm, "")]
    saved_tok, saved_e, saved_E = X.tokenize, X.functions["e"], X.functions["E"]

    def guarded(stack, __orig=saved_e):
        y = stack[-1]
        if y > budget or -y > budget:
            raise WorkBound("10**%s" % (y,))
        return __orig(stack)

    X._cache.clear()
    X.tokenize = lambda s: list(tokens)
    X.functions["e"] = X.functions["E"] = guarded
    try:
        try:
            al = e["evaluate"].ArgumentList(args=(text, "yes", "no"), expander=_Exp())
            res = make_resolver()(fn, al)
        except WorkBound as w:
            return {"sig": f"{fn}|unbounded-work", "name": fn, "args": [text, "yes", "no"][: (1 if fn == "#EXPR" else 3)], "detail": str(w)}
        except Exception as ex:
            return {"sig": f"{fn}|{type(ex).__name__}", "name": fn, "args": [text], "detail": str(ex)[:160]}
    finally:
        X.tokenize, X.functions["e"], X.functions["E"] = saved_tok, saved_e, saved_E
        X._cache.clear()
    if not isinstance(res, str):
        return {"sig": f"{fn}|returned-{type(res).__name__}", "name": fn, "args": [text]}
    return None


BOUNDARY_OPERANDS = ["0", "1", "7", "10", "99999999999999", "100000000000000", "1e14", "1e15", "1e308", "1e309", "1.5e308", "1e400", "1e401",
                     "1e-400", ".5", "2.5", "9" * 20, "9" * 320, "-1", "1e", "e1"]
BOUNDARY_OPS = ["*", "+", "-", "/", "^", "mod", "round", "e", "", "div", "<", "and"]


def h_expr_boundary(a: int, b: int, op: int, fn: str):
    """#expr / #ifexpr on 'A <op> B' with operands from a vocabulary around the float range, the 1e14 formatting threshold and
    the digit limits.  Floats are C doubles: CrossHair models them as reals, so these boundaries are enumerated (pinned), not solved for."""
    from vlib.sym import untraced

    A = BOUNDARY_OPERANDS[choose(a, len(BOUNDARY_OPERANDS))]
    B = BOUNDARY_OPERANDS[choose(b, len(BOUNDARY_OPERANDS))]
    O = BOUNDARY_OPS[choose(op, len(BOUNDARY_OPS))]
    text = (A + " " + O + " " + B) if O else A
    args = [text, "yes", "no"] if fn == "#IFEXPR" else [text]
    return untraced(_timed_call_magic, fn, args)


BOUNDARY_WALL_S = 20  # a boundary expression (<= 650 characters) evaluates in milliseconds; CPython checks signals inside long arithmetic


def _timed_call_magic(fn, args):
    """call_magic on concrete arguments under a wall-clock alarm: work that grows with the *value* of a numeral (an exact integer
    power, a huge repetition) does not come back, and a path that never returns would only make the cube inconclusive."""
    import signal
    import threading

    if threading.current_thread() is not threading.main_thread():
        return call_magic(fn, args)

    def on_alarm(signum, frame):
        raise WorkBound("no result within %d s" % BOUNDARY_WALL_S)

    old = signal.signal(signal.SIGALRM, on_alarm)
    signal.setitimer(signal.ITIMER_REAL, BOUNDARY_WALL_S)
    try:
        return call_magic(fn, args)
    except WorkBound as w:  # raised outside call_magic's own try (e.g. in its finally)
        return {"sig": f"{fn}|unbounded-work", "name": fn, "args": list(args), "detail": str(w)}
    finally:
        signal.setitimer(signal.ITIMER_REAL, 0)
        signal.signal(signal.SIGALRM, old)


def twin_pad(n: int):
    """Reachability: PADLEFT does pad (the guarded range is exercised and the oracle sees the output)."""
    assume(0 <= n <= 20)
    e = env()
    al = e["evaluate"].ArgumentList(args=("x", str(n), "ab"), expander=_Exp())
    r = make_resolver()("PADLEFT", al)
    if isinstance(r, str) and len(r) > 5 and r.endswith("x"):
        return {"reached": r}
    return None


# ---------------------------------------------------------------------------- recursion guard (template universes)


def h_universe(b0: int, b1: int, b2: int, ntempl: int):
    """Template universes with arbitrary call graphs: body of template Ti = two calls chosen among {T0..T2, {{{1}}}, missing, text}."""
    import mwlib.core.metabook  # noqa
    from mwlib.parser.expander import Expander
    from mwlib.parser.templ.misc import DictDB

    from harness.treecommon import untraced

    pieces = ["{{T0}}", "{{T1}}", "{{T2}}", "{{{1}}}", "{{Missing}}", "x", "{{T0|{{T1}}}}", "{{#if:{{T2}}|{{T0}}|{{T1}}}}"]
    n = len(pieces)
    bodies = []
    for b in (b0, b1, b2)[:ntempl]:
        c = choose(b, n * n)
        bodies.append(pieces[c // n] + pieces[c % n])
    db = {"T%d" % i: bodies[i] for i in range(len(bodies))}

    def go():
        ex = Expander("{{T0|a}}", pagename="P", wikidb=DictDB(dict(db)))
        r = ex.expandTemplates()
        return r, ex.recursion_count

    try:
        r, rc = untraced(go)
    except Exception as ex:
        return {"sig": "universe|" + type(ex).__name__, "templates": db, "detail": str(ex)[:160]}
    if not isinstance(r, str) or rc != 0:
        return {"sig": "universe|bad-result", "templates": db, "detail": repr((type(r).__name__, rc))}
    return None


def build(tier: str) -> CheckSpec:
    e = env()
    q = tier == "quick"
    names = magic_names()
    maxk, slen = (2, 2) if q else (3, 4)
    tmo = 12 if q else 200
    cubes = []
    params = {"s0": str, "s1": str, "s2": str, "n0": int, "m0": int, "n1": int, "m1": int}
    combos = [(0, 0, 0)] + [(1, a, 0) for a in range(5)] + [(2, 0, 0), (2, 1, 1), (2, 0, 4)]
    if not q:
        combos += [(2, a, b) for a in (0, 1, 2, 3, 4) for b in (0, 1, 4) if (a, b) not in ((0, 0), (1, 1), (0, 4))] + [(3, 0, 0), (3, 1, 1)]
    for n in names:
        for k, a, b in combos:
            label = ", ".join([ARG_SHAPES[a]][:k] + [ARG_SHAPES[b]][: max(0, k - 1)] + ["free string"][: max(0, k - 2)])
            cubes.append(Cube(f"magic {n}({label})", h_magic, params, {"name": n, "k": k, "sh0": a, "sh1": b, "slen": slen},
                              timeout=tmo, per_path_timeout=10, group=n))
    for fn in ("#EXPR", "#IFEXPR"):
        cubes.append(Cube(f"{fn} boundary operands", h_expr_boundary, {"a": int, "b": int, "op": int}, {"fn": fn}, timeout=200 if q else 900, group=fn))
        cubes.append(Cube(f"{fn} n <op> m (token level)", h_expr_tokens, {"n": int, "m": int, "op": int}, {"fn": fn}, timeout=120 if q else 600, per_path_timeout=20, group=fn))
    cubes.append(Cube("universes of 2 templates", h_universe, {"b0": int, "b1": int, "b2": int}, {"ntempl": 2}, timeout=600, group="recursion"))
    if not q:
        cubes.append(Cube("universes of 3 templates", h_universe, {"b0": int, "b1": int, "b2": int}, {"ntempl": 3}, timeout=3000, group="recursion"))
    cubes.append(Cube("twin: padleft pads", twin_pad, {"n": int}, {}, timeout=60, role="twin"))
    magics, evaluate = e["magics"], e["evaluate"]
    return CheckSpec(
        property_id="C03",
        level="other",
        cubes=cubes,
        functions=[magics.MagicResolver.__call__, magics.MagicResolver, evaluate.ArgumentList, evaluate.flatten,
                   (evaluate.__file__, "templ/evaluate.pyx loaded as Python source")],
        bounds={"registered names (from dir(MagicResolver) at run time)": len(names), "argument count": f"0..{maxk}",
                "argument shapes": ARG_SHAPES, "free strings": f"<= {slen} characters, any code point", "numerals": "rendered from symbolic integers 0 <= n < 10^5 (10^6 in the #expr token cubes)",
                "work bound": f"{WORK_BASE} + {WORK_PER_CHAR} * (name + argument length) for loop trip counts in magics.py and output length",
                "#expr boundary operands": "A <op> B over %d operands x %d operators (pinned)" % (len(BOUNDARY_OPERANDS), len(BOUNDARY_OPS)),
                "template universes": "2 templates (quick) / 3 (thorough), body = two pieces of 8, every call graph incl. cycles and missing targets"},
        stubs=["expr.tokenize (regex) replaced by its token list in the '#EXPR n <op> m' cubes; expr._cache cleared per path", "templ/evaluate.pyx, nodes.pyx, node.pyx loaded from source as Python (vlib/pyxload.py)", "`range` in the magics namespace guarded by the work bound",
               "expr._cache (memo of evaluated expressions) cleared before and after every call", "expander stub with recursion_count/recursion_limit for ArgumentList (string arguments are not flattened)", "wikidb = None for #ifexist"],
        assumptions=["arguments reach the resolver as stripped strings (ArgumentList.get on str arguments)", "template universes are pinned (enumerated by the solver) and expanded outside the tracer: the text parser is regex driven"],
        outside=["templ/parser.py, scanner.py, pp.py (wikitext -> node tree): exercised concretely in the replay only", "magic_time (#time, C timelib)", "interpreter RecursionError paths",
                 "site aliases of magic words (resolved by parser.AliasMap before dispatch)"],
        explanation="bounded symbolic execution of the magic-word dispatch: for every registered name the argument count, argument strings and the integers rendered into numerals are z3 variables; "
        "the solver either shows that no exception / unbounded loop / unbounded output is reachable or returns the arguments, which are replayed as wikitext through the real (compiled) Expander",
        replay=replay,
    )


# ---------------------------------------------------------------------------- replay through the real (compiled) expander


def replay(cand: dict) -> dict:
    import json
    import subprocess
    import sys

    d = cand.get("concrete", {}).get("detail")
    if not isinstance(d, dict):
        return {"reproduced": False, "error": "no concrete detail"}
    if "templates" in d:
        page, db = "{{T0|a}}", d["templates"]
        budget = 10**9
    else:
        name, args = d["name"], d["args"]
        fn = name.lower() if not name.startswith("#") else name.lower()
        if d["sig"].endswith("unbounded-work"):
            # the solver returns the smallest number beyond the work bound; the bound says work must not grow with the
            # *value* of a numeral, so the replay writes a large value of (nearly) the same length: 8 nines
            import re as _re

            args = [_re.sub(r"\d{4,}", "99999999", a) for a in args]
        page = "{{" + fn + (":" + "|".join(args) if args else "") + "}}"
        db = {}
        budget = WORK_BASE + WORK_PER_CHAR * (len(name) + sum(len(a) for a in args))
        for a in args:
            if any(t in a for t in ("|", "{{", "}}", "[[", "]]", "<", "\x7f")) or a != a.strip():
                return {"reproduced": False, "not_liftable": True, "what": f"argument {a!r} cannot be written as a template argument"}
    code = r'''
import json, sys, resource
resource.setrlimit(resource.RLIMIT_CPU, (10, 12)); resource.setrlimit(resource.RLIMIT_AS, (1 << 30, 1 << 30))
page, db, budget = json.loads(sys.argv[1])
import mwlib.core.metabook
from mwlib.parser.templ.misc import DictDB
from mwlib.parser.expander import Expander
from mwlib.parser.templ import evaluate
assert evaluate.__file__.endswith(".so"), evaluate.__file__
try:
    r = Expander(page, pagename="Some page/Sub", wikidb=DictDB(dict(db))).expandTemplates()
    print("RESULT " + json.dumps({"ok": isinstance(r, str), "len": len(r) if isinstance(r, str) else -1, "head": r[:60] if isinstance(r, str) else repr(r)[:60]}))
except MemoryError:
    print("RESULT " + json.dumps({"exc": "MemoryError"}))
except Exception as e:
    print("RESULT " + json.dumps({"exc": type(e).__name__, "msg": str(e)[:120]}))
'''
    p = subprocess.run([sys.executable, "-c", code, json.dumps([page, db, budget])], capture_output=True, text=True, timeout=60)
    line = [l for l in p.stdout.splitlines() if l.startswith("RESULT ")]
    if not line:
        if p.returncode in (-24, -9, 137, 152):
            return {"reproduced": True, "signature": "C03|" + d["sig"].split("|")[0] + "|cpu-limit", "what": f"expanding {page!r} exceeds 10 s of CPU"}
        return {"reproduced": False, "error": "expander child failed: rc=%s %s" % (p.returncode, (p.stderr or p.stdout)[-300:])}
    r = json.loads(line[-1][7:])
    head = d["sig"].split("|")[0]
    if "exc" in r:
        return {"reproduced": True, "signature": f"C03|{head}|{r['exc']}", "what": f"Expander({page!r}).expandTemplates() raises {r['exc']}: {r.get('msg', '')}"}
    if r["len"] > budget:
        return {"reproduced": True, "signature": f"C03|{head}|unbounded-output", "what": f"Expander({page!r}).expandTemplates() returns {r['len']} characters for a call of {len(page)} characters"}
    return {"reproduced": False, "not_liftable": True, "what": f"{d['sig']} at the resolver, but {page!r} expands normally to {r['head']!r}"}
