"""C18 — saving and restoring the queue preserves every job."""
from harness import qcommon
from vlib.runner import CheckSpec, Cube
from vlib.stubs import qsim
from vlib.stubs.qsim import ADD, DISCONNECT, DROP, FINISH, FINISH_ID, KILL, PULL, READD, RUN, SETINFO, TICK, WAIT, WATCHDOG

PROPS = ("C16", "C17", "C18")  # the C16/C17 oracles are only consulted after a restart (qsim.Sim.want)
FULL = (ADD, PULL, RUN, FINISH, KILL, TICK, DISCONNECT, WAIT, SETINFO, READD, WATCHDOG)
DROPS = (ADD, DROP, PULL, KILL, WAIT)  # a job marked by qdrop is still a job until it has finished and been waited for


def h_bmc(**kw):
    return qcommon.h_bmc(**kw)


def h_nf(**kw):
    return qcommon.h_nf(**kw)


def h_twin(b1: int, b2: int):
    """A pulled, unfinished job IS pullable again after the restart (the restore path is live, priorities symbolic)."""
    jobs, qserve = qcommon.load_modules()
    sim = qsim.Sim(jobs, qserve, choices=[], props=PROPS)
    try:
        sim.step(ADD, 0, b1, 50)
        sim.step(ADD, 0, b2, 50)
        sim.step(PULL, 0, 3, 0)
        first = list(sim.workers[0].held)
        sim.step(qsim.RESTORE, 0, 0, 0)
        sim.step(PULL, 0, 3, 0)
        if first and sim.workers[0].held == first:
            return {"reached": "pulled job delivered again after restart", "history": sim.history}
        return None
    except qsim.Violation:
        return None
    finally:
        sim.cleanup()


def build(tier: str) -> CheckSpec:
    import qs.jobs
    import qs.qserve

    cubes = []
    if tier == "quick":
        cubes += qcommon.with_restore(qcommon.bmc_cubes(h_bmc, "bmc", 3, FULL, 1, 200, PROPS), [1, 2])
        cubes += qcommon.with_restore(qcommon.bmc_cubes(h_bmc, "readd", 4, (ADD, KILL, READD, PULL), 2, 200, PROPS), [4])
        cubes += qcommon.with_restore(qcommon.bmc_cubes(h_bmc, "drop", 3, DROPS, 1, 200, PROPS), [1, 2, 3])
        cubes += qcommon.with_restore(qcommon.nf_cubes(h_nf, "nf1", 1, 2, FULL, 240, PROPS), [0])
        cubes += qcommon.with_restore(qcommon.nf_cubes(h_nf, "nf2", 2, 1, FULL, 200, PROPS), [0])
        b = {"bmc": "3 operations + restart at positions 1..2", "readd": "4 operations over add/kill/re-add/pull, then restart", "drop": "3 operations over add/drop/pull/kill/wait + restart at positions 1..3", "normal-form prefix": "1 staged job, restart, 2 ops; 2 staged jobs, restart, 1 op"}
    else:
        cubes += qcommon.with_restore(qcommon.bmc_cubes(h_bmc, "bmc", 4, FULL, 2, 2400, PROPS), [1, 2, 3, 4])
        cubes += qcommon.with_restore(qcommon.bmc_cubes(h_bmc, "drop", 4, DROPS, 2, 2400, PROPS), [1, 2, 3, 4])
        cubes += qcommon.with_restore(qcommon.nf_cubes(h_nf, "nf2", 2, 2, FULL, 2400, PROPS), [0, 1])
        cubes += qcommon.with_restore(qcommon.nf_cubes(h_nf, "nf3", 3, 1, FULL, 2400, PROPS), [0])
        b = {"bmc": "4 operations + restart at positions 1..4", "drop": "4 operations over add/drop/pull/kill/wait + restart at positions 1..4", "normal-form prefix": "2 staged jobs, restart at 0/1, 2 ops; 3 staged jobs, restart, 1 op"}
    cubes.append(Cube("twin: pulled job pullable again after restart", h_twin, {"b1": int, "b2": int}, {}, timeout=60, role="twin"))
    return CheckSpec(
        property_id="C18",
        level="model_checking",
        cubes=cubes,
        functions=[qs.jobs.workq.__getstate__, qs.jobs.workq.__setstate__, qs.jobs.job.__getstate__, qs.jobs.job.__setstate__,
                   qs.jobs.workq, qs.qserve.QPlugin, qs.qserve.db],
        bounds={"histories": b, "alphabet": [qsim.OPNAMES[o] for o in FULL], "normal_form_stages": qcommon.STAGES,
                "workers": 3, "channels": 2, "priorities / timeouts / clock deltas": "unbounded symbolic integers"},
        stubs=["pickle.dumps/loads(db) -> copy.deepcopy(db) in the symbolic run (same __reduce_ex__/__getstate__/__setstate__ protocol; "
               "pickle itself is C); replays use real pickle protocol 2 as qserve.Main.savedb does",
               "restart = state copied as it is (no connection runs its shutdown()), every greenlet of the old process dropped, fresh connections",
               "scheduler / clock / random stubs of C16"],
        assumptions=["after a restart every unfinished job (queued, handed over, or pulled) is expected back in its channel queue in (priority, arrival) order, "
                     "finished jobs keep result/error/info, new ids are fresh, wait on a finished job returns at once; statistics counters are not part of C18"],
        outside=["the pickle byte format, file I/O of savedb/loaddb (see C20 for atomicity)", "histories beyond the bound"],
        explanation="bounded model checking by symbolic execution: histories with a stop/restart step at every position; after the restart the same conservation, "
        "ordering and finality oracles as C16/C17 are applied to the continuation and compared with the reference model restored from its own snapshot",
        replay=replay,
        setup=qcommon.setup,
    )


def replay(cand: dict) -> dict:
    return qcommon.replay_history(cand, PROPS)
