"""C19 — the render status reported to the wiki is faithful to the job's real state.

Real code: nserve.Application.do_render_status / _process_and_return_finished_state / get_content_disposition(_values),
with Application.qserve bound in-process to the real qs.qserve.QPlugin + qs.jobs.workq (same stubs as C16).
Symbolic: the stage of the collection's makezip job, of the requested writer's render job and of another writer's
render job (each reached through real API calls), the requested writer, info / result / error values, and the
suggested download filename.
"""
import copy
import unicodedata

from harness import qcommon
from vlib.runner import CheckSpec, Cube
from vlib.stubs import qsim
from vlib.sym import assume, in_alphabet, pinned

CID = "0123456789abcdef"
STAGES = ["absent", "queued", "pulled", "pulled-with-info", "finished-with-result", "finished-without-result",
          "finished-error", "killed", "timed-out", "dropped",
          # the queue ended the pulled job first; its worker, unaware, reports success afterwards (the first outcome is final)
          "killed-late-finish", "timed-out-late-finish"]
WRITERS = ["rl", "odf", "xhtml", "xl", "zim"]
OTHER_STAGES = ("absent", "queued", "finished-with-result", "finished-error")  # stages of the other writer's render job


class InProcQserve:
    """rpcclient.ServerProxy stand-in: calls the rpc_* method of a real QPlugin; values cross a JSON-value copy."""

    def __init__(self, handler):
        self.h = handler

    def qinfo(self, jobid=None):
        return copy.deepcopy(self.h.rpc_qinfo(jobid))

    def qadd(self, **kw):
        return self.h.rpc_qadd(**kw)


def _app():
    import mwlib.core.metabook  # noqa: F401
    from mwlib.core import nserve

    for a in ("Application", "name2writer", "get_content_disposition"):
        if not hasattr(nserve, a):
            raise RuntimeError(f"stub target mwlib.core.nserve.{a} is gone")
    return nserve


def stage_job(sim, worker, jobid, channel, stage, info_val, result, error, clock_after):
    """Bring one named job into `stage` through real rpc_* calls.  Returns what the reference expects of it."""
    exp = {"exists": False, "done": False, "error": None, "info": {}, "result": None}
    st = STAGES[stage]
    if st == "absent":
        return exp
    h = sim.client
    tmo = 5 if st in ("timed-out", "timed-out-late-finish") else 1000
    h.rpc_qadd(channel=channel, payload={"params": {}}, jobid=jobid, timeout=tmo)
    exp["exists"] = True
    if st == "queued":
        return exp
    if st == "killed":
        h.rpc_qkill([jobid])
        exp.update(done=True, error="killed")
        return exp
    if st == "timed-out":
        sim.now = sim.now + 10
        sim.wq.handletimeouts()
        exp.update(done=True, error="timeout")
        return exp
    w = sim.workers[worker].handler
    got = w.rpc_qpull([channel])
    if got["jobid"] != jobid:
        raise RuntimeError("staging error: pulled %r instead of %r" % (got["jobid"], jobid))
    if st == "pulled":
        return exp
    if st in ("killed-late-finish", "timed-out-late-finish"):
        if st == "killed-late-finish":
            h.rpc_qkill([jobid])
            exp.update(done=True, error="killed")
        else:
            sim.now = sim.now + 10
            sim.wq.handletimeouts()
            exp.update(done=True, error="timeout")
        w.rpc_qfinish(jobid, result=result)
        return exp
    if st == "pulled-with-info":
        w.rpc_qsetinfo(jobid, {"status": info_val})
        exp["info"] = {"status": info_val}
        return exp
    if st == "finished-with-result":
        w.rpc_qfinish(jobid, result=result)
        exp.update(done=True, result=result)
        return exp
    if st == "finished-without-result":
        w.rpc_qfinish(jobid, result=None)
        exp.update(done=True)
        return exp
    if st in ("finished-error", "dropped"):
        if st == "dropped":
            error = "boom"  # a non-empty error gives the short time-to-live (10 s) that the staging lets expire
        w.rpc_qfinish(jobid, error=error)
        exp.update(done=True, error=error)
        if st == "dropped":
            sim.wq.dropdead()
            sim.now = sim.now + 30
            sim.wq.dropdead()
            exp = {"exists": False, "done": False, "error": None, "info": {}, "result": None}
        return exp
    raise ValueError(st)


INFO1, INFO2, URL, FNAME = "fetching 3/7", "rendering 12%", "http://host/cache/01/0123456789abcdef/output.rl", "My Book"
ERRORS = ["boom", ""]


def h_status(mz: int, rj: int, oj: int, widx: int, oidx: int, size: int, errc: int):
    """state / error / status / url mapping for every combination of job stages."""
    nserve = _app()
    jobs, qserve = qcommon.load_modules()
    assume(0 <= mz < len(STAGES) and 0 <= rj < len(STAGES) and 0 <= oj < len(STAGES))
    assume(0 <= widx < len(WRITERS) and oidx == (widx + 1) % len(WRITERS))
    assume(STAGES[oj] in OTHER_STAGES)
    assume(0 <= errc < len(ERRORS))
    info1, info2, url, fname, err = INFO1, INFO2, URL, FNAME, ERRORS[errc]
    writer, other = WRITERS[widx], WRITERS[oidx]
    assume(writer in nserve.name2writer and other in nserve.name2writer)
    sim = qsim.Sim(jobs, qserve, choices=[], props=())
    try:
        result = {"url": url, "size": size, "suggested_filename": fname}
        # the dropped stage moves the clock: stage it first so that it does not expire the others
        # ... then the stages that pull their job (the queue must not hold another job of that channel yet), then the rest
        def rank(s):
            if STAGES[s] == "dropped":
                return 0
            if STAGES[s] in ("pulled", "pulled-with-info", "finished-with-result", "finished-without-result", "finished-error",
                             "killed-late-finish", "timed-out-late-finish"):
                return 1
            return 2

        order = sorted([(rank(s), i) for i, s in enumerate((mz, rj, oj))])
        exps = [None, None, None]
        specs = [(f"{CID}:makezip", "makezip", mz, info1), (f"{CID}:render-{writer}", "render", rj, info2),
                 (f"{CID}:render-{other}", "render", oj, "other")]
        for _, i in order:
            jid, ch, st, inf = specs[i]
            exps[i] = stage_job(sim, i, jid, ch, st, inf, result, err, 0)
        emz, erj, eoj = exps
        app = nserve.Application()
        app.qserve = InProcQserve(sim.client)
        out = app.do_render_status(CID, {"writer": writer})
        hist = {"makezip": STAGES[mz], "render": STAGES[rj], "other_writer_render": STAGES[oj], "writer": writer, "other": other}
        if out.get("collection_id") != CID or out.get("writer") != writer:
            return {"sig": "wrong-identity", "out": out, "stages": hist}
        state = out.get("state")
        if erj["done"] and erj["error"]:
            if state != "failed" or out.get("error") != erj["error"]:
                return {"sig": "failed-job-not-reported-failed", "out": out, "stages": hist}
        elif erj["done"]:
            if state != "finished":
                return {"sig": "finished-job-not-reported-finished", "out": out, "stages": hist}
            nw = nserve.name2writer[writer]
            if erj["result"] is not None:
                if out.get("url") != url or out.get("content_length") != size:
                    return {"sig": "finished-without-url-or-size", "out": out, "stages": hist}
            if nw.content_type and out.get("content_type") != nw.content_type:
                return {"sig": "wrong-content-type", "out": out, "stages": hist}
        else:
            if state != "progress":
                return {"sig": "unfinished-job-reported-" + str(state), "out": out, "stages": hist}
            status = out.get("status")
            if erj["info"]:
                if status != erj["info"]:
                    return {"sig": "render-progress-not-shown", "out": out, "stages": hist}
            elif emz["exists"] and not emz["done"]:
                if status != emz["info"]:
                    return {"sig": "fetch-progress-not-shown", "out": out, "stages": hist}
        return None
    finally:
        sim.cleanup()


HEADER_BAD = '\r\n";,'


def class_representatives():
    """One representative per distinct NFKD->ASCII projection that contains a header-special character, plus
    letters, space, quotes, separators, percent, backslash and a non-BMP character (computed from unicodedata)."""
    reps = {}
    for cp in range(0x20, 0x30000):
        ch = chr(cp)
        if unicodedata.category(ch).startswith("C"):
            continue
        proj = unicodedata.normalize("NFKD", ch).encode("ASCII", "ignore").decode()
        if any(c in proj for c in HEADER_BAD + " :'\\%=/") and proj not in reps:
            reps[proj] = ch
    base = ["a", "Z", "0", " ", '"', "'", ";", ":", ",", "\\", "%", "=", "/", ".", "-", "ö", "中", "\U0001F600", " "]
    out = []
    for ch in base + list(reps.values()):
        if ch not in out:
            out.append(ch)
    return out


_reps = []


def reps():
    if not _reps:
        _reps.extend(class_representatives())
    return _reps


def h_filename(i1: int, i2: int, i3: int, n: int, widx: int, maxn: int = 3, first: int = -1):
    """Content-Disposition built from an arbitrary printable suggested filename is header-safe."""
    nserve = _app()
    R = reps()
    assume(0 <= n <= maxn)
    assume(0 <= widx < len(WRITERS))
    if first >= 0:
        assume(n >= 1 and i1 == first)
    idx = [i1, i2, i3][:n]
    for i in idx:
        assume(0 <= i < len(R))
    name = "".join(R[i] for i in idx)
    ext = nserve.name2writer[WRITERS[widx]].file_extension
    disp = nserve.get_content_disposition(name, ext)
    return judge_disposition(name, ext, disp)


def h_filename_w0(i1: int, i2: int, i3: int, n: int, widx: int = 0, maxn: int = 3, first: int = -1):
    return h_filename(i1, i2, i3, n, widx, maxn, first)


def judge_disposition(name, ext, disp):
    if not disp.startswith("inline; filename="):
        return {"sig": "disposition-shape", "name": name, "disposition": disp}
    rest = disp[len("inline; filename="):]
    if ";filename*=UTF-8''" in rest:
        plain, star = rest.split(";filename*=UTF-8''", 1)
    else:
        plain, star = rest, None
    for part, label in ((plain, "filename"), (star or "", "filename*")):
        for ch in part:
            if ch in HEADER_BAD or ch == " " or ord(ch) < 0x21 or ord(ch) > 0x7E:
                return {"sig": "unsafe-character-in-" + label, "name": name, "disposition": disp, "char": repr(ch)}
    if not plain.endswith("." + ext) or len(plain) <= len(ext) + 1:
        return {"sig": "filename-empty-or-without-extension", "name": name, "disposition": disp}
    if star is not None:
        import urllib.parse

        if urllib.parse.unquote(star) != name.strip() + "." + ext:
            return {"sig": "filename*-does-not-decode-to-the-name", "name": name, "disposition": disp}
    return None


def twin_finished(rj: int, widx: int):
    """Reachability: some staging makes the status 'finished' with a url."""
    nserve = _app()
    jobs, qserve = qcommon.load_modules()
    assume(0 <= rj < len(STAGES) and 0 <= widx < len(WRITERS))
    sim = qsim.Sim(jobs, qserve, choices=[], props=())
    try:
        stage_job(sim, 1, f"{CID}:render-{WRITERS[widx]}", "render", rj, "i", {"url": "u", "size": 1, "suggested_filename": "f"}, "x", 0)
        app = nserve.Application()
        app.qserve = InProcQserve(sim.client)
        out = app.do_render_status(CID, {"writer": WRITERS[widx]})
        if out.get("state") == "finished" and out.get("url") == "u":
            return {"reached": out}
        return None
    finally:
        sim.cleanup()


def setup():
    qcommon.setup()
    reps()


def build(tier: str) -> CheckSpec:
    nserve = _app()
    import qs.jobs
    import qs.qserve

    cubes = []
    tmo = 240 if tier == "quick" else 1500
    params = {"mz": int, "rj": int, "oj": int, "widx": int, "oidx": int, "size": int, "errc": int}
    for r in range(len(STAGES)):
        p = dict(params)
        del p["rj"]
        cubes.append(Cube(f"status[render job {STAGES[r]}]", h_status_fixed_r, p, {"rj": r}, timeout=tmo, per_path_timeout=30, group="status"))
    nrep = len(reps())
    if tier == "quick":
        cubes.append(Cube("filename <= 2 class representatives (of %d), writer rl" % nrep, h_filename_w0,
                          {"i1": int, "i2": int, "i3": int, "n": int}, {"maxn": 2, "first": -1, "widx": 0}, timeout=tmo, group="filename"))
        cubes.append(Cube("filename <= 1 class representative, every writer", h_filename,
                          {"i1": int, "i2": int, "i3": int, "n": int, "widx": int}, {"maxn": 1, "first": -1}, timeout=tmo, group="filename"))
    else:
        cubes.append(Cube("filename empty", h_filename, {"i1": int, "i2": int, "i3": int, "n": int, "widx": int}, {"maxn": 0, "first": -1}, timeout=tmo, group="filename"))
        for f in range(nrep):
            cubes.append(Cube("filename <= 3 class representatives, first=#%d" % f, h_filename,
                              {"i1": int, "i2": int, "i3": int, "n": int, "widx": int}, {"maxn": 3, "first": f}, timeout=tmo, group="filename"))
    cubes.append(Cube("twin: finished reachable", twin_finished, {"rj": int, "widx": int}, {}, timeout=60, role="twin"))
    return CheckSpec(
        property_id="C19",
        level="model_checking",
        cubes=cubes,
        functions=[nserve.Application.do_render_status, nserve.Application._process_and_return_finished_state,
                   nserve.get_content_disposition, nserve.get_content_disposition_values, qs.qserve.QPlugin.rpc_qinfo, qs.jobs.job._json],
        bounds={"job stages": STAGES, "jobs": ["<id>:makezip", "<id>:render-<requested writer>", "<id>:render-<another writer>"],
                "writers": WRITERS, "info / url": "fixed distinct tokens (only their identity matters)", "error": ERRORS, "size": "symbolic int",
                "filename": "<= %d characters over %d NFKD->ASCII class representatives" % (2 if tier == "quick" else 3, nrep),
                "other writer's job stages": list(OTHER_STAGES), "writer pairs": "(w, next writer) for each of the 5 registered writers"},
        stubs=["Application.qserve (rpcclient.ServerProxy) -> in-process call of QPlugin.rpc_qinfo with a deep copy standing for the JSON transport",
               "scheduler / clock stubs of C16; job stages are reached through real rpc_qadd/qpull/qsetinfo/qfinish/qkill, handletimeouts and dropdead calls"],
        assumptions=["an error of '' counts as no error (finishjob and the statistics treat it so)",
                     "header-safe = the filename= and filename*= values are printable ASCII without space, quote, semicolon, comma, CR, LF; filename* percent-decodes to the stripped name"],
        outside=["the HTTP layer (bottle), WatchQServe, control characters in file names (excluded by the property)", "RFC 2616 token separators other than the ones listed"],
        explanation="bounded model checking by symbolic execution: every combination of stages of the three jobs, requested writer and symbolic info/result/error values is run "
        "through the real do_render_status bound to a real queue; the reported state is compared with the history that produced it",
        replay=replay,
        setup=setup,
    )


def h_status_fixed_r(rj: int, **kw):
    return h_status(rj=rj, **kw)


def replay(cand: dict) -> dict:
    import logging

    logging.disable(logging.CRITICAL)
    d = cand.get("concrete", {}).get("detail")
    if not isinstance(d, dict):
        return {"reproduced": False, "error": "no concrete detail"}
    args = dict(cand["args"])
    qcommon._mods.clear()
    qcommon.load_modules(strip_logging=False)
    if cand["fn"] == "h_filename":
        r = h_filename(**{k: args[k] for k in ("i1", "i2", "i3", "n", "widx", "maxn", "first")})
        if r is None:
            return {"reproduced": False, "what": "real get_content_disposition is safe for this name"}
        return {"reproduced": True, "signature": "C19|" + r["sig"], "what": f"get_content_disposition({r['name']!r}) = {r['disposition']!r}"}
    keys = ("mz", "rj", "oj", "widx", "oidx", "size", "errc")
    r = h_status(**{k: args[k] for k in keys})
    if r is None:
        return {"reproduced": False, "what": "real modules report the expected state"}
    return {"reproduced": True, "signature": "C19|" + r["sig"] + "|render=" + r["stages"]["render"],
            "what": f"do_render_status with stages {r['stages']} returned {r['out']!r}"}
