"""C13 — metabooks round-trip through JSON (object <-> JSON-value layer).

simplejson's text codec (C speed-ups) and SHA-256 cannot be executed symbolically; what mwlib contributes is the
typed-object <-> dict mapping: MetabookObject.__init__/_json, myjson.object_hook, MbEncoder.default.  The JSON text
layer is modelled as the identity on JSON values: dumps_model applies MbEncoder.default wherever the real encoder
would (on non-JSON objects), loads_model applies object_hook bottom-up to every dict, as the real decoder does.
"""
from vlib.runner import CheckSpec, Cube
from vlib.sym import assume, choose, in_alphabet


def _mods():
    import mwlib.core.metabook  # noqa: F401
    from mwlib.core import metabook
    from mwlib.utils import myjson

    for a in ("object_hook", "MbEncoder"):
        if not hasattr(myjson, a):
            raise RuntimeError("stub target myjson.%s is gone" % a)
    return metabook, myjson


def _nserve():
    import mwlib.core.metabook  # noqa: F401
    from mwlib.core import nserve

    if not hasattr(nserve, "make_collection_id") or not hasattr(nserve, "sha256"):
        raise RuntimeError("stub target nserve.make_collection_id / nserve.sha256 is gone")
    return nserve


def dumps_model(obj):
    """JSON value the real encoder would emit (before text rendering)"""
    metabook, myjson = _mods()
    if obj is None or isinstance(obj, (str, int, float, bool)):
        return obj
    if isinstance(obj, (list, tuple)):
        return [dumps_model(x) for x in obj]
    if isinstance(obj, dict):
        return {k: dumps_model(v) for k, v in obj.items()}
    return dumps_model(myjson.MbEncoder().default(obj))


def loads_model(val):
    """object the real decoder would build: object_hook applied bottom-up to every JSON object"""
    metabook, myjson = _mods()
    if isinstance(val, list):
        return [loads_model(x) for x in val]
    if isinstance(val, dict):
        return myjson.object_hook({k: loads_model(v) for k, v in val.items()})
    return val


def shape_of(obj):
    """class names, order and nesting (what 'equal metabook' means structurally)"""
    metabook, _ = _mods()
    if isinstance(obj, metabook.MetabookObject):
        return [obj.__class__.__name__, [shape_of(x) for x in getattr(obj, "items", []) or []]]
    return None


def make_collection(kinds, titles, revs, has_rev, disp, extra_name, extra_val, ctitle):
    metabook, _ = _mods()
    c = metabook.Collection(title=ctitle)
    cur_chapter = None
    for i, k in enumerate(kinds):
        if k == 0:
            kw = {}
            if has_rev[i]:
                kw["revision"] = revs[i]
            if disp[i]:
                kw["displaytitle"] = titles[i] + "!"
            a = metabook.Article(title=titles[i], **kw)
            (cur_chapter.items if cur_chapter is not None else c.items).append(a)
        elif k == 1:
            cur_chapter = metabook.Chapter(title=titles[i])
            c.items.append(cur_chapter)
        else:
            cur_chapter = None
            a = metabook.Article(title=titles[i], **{extra_name: extra_val})
            c.items.append(a)
    return c


def h_roundtrip(n: int, k0: int, k1: int, k2: int, t0: str, t1: str, t2: str, r0: int, r1: int, r2: int,
                hr0: bool, hr1: bool, hr2: bool, d0: bool, d1: bool, d2: bool, extra_val: str, ctitle: str):
    metabook, myjson = _mods()
    n = choose(n, 4)
    kinds = [choose(k, 3) for k in (k0, k1, k2)][:n]
    titles = [t0, t1, t2][:n]
    for t in titles + [extra_val, ctitle]:
        assume(len(t) <= 3)
    c = make_collection(kinds, titles, [r0, r1, r2], [hr0, hr1, hr2], [d0, d1, d2], "note", extra_val, ctitle)
    v1 = dumps_model(c)
    c2 = loads_model(v1)
    if not isinstance(c2, metabook.Collection):
        return {"sig": "roundtrip|not-a-collection", "value": v1}
    if shape_of(c2) != shape_of(c):
        return {"sig": "roundtrip|structure-changed", "before": shape_of(c), "after": shape_of(c2), "value": v1}
    v2 = dumps_model(c2)
    if v2 != v1:
        return {"sig": "roundtrip|not-a-fixed-point", "first": v1, "second": v2}
    # same attributes item by item
    a1, a2 = c.walk(), c2.walk()
    if len(a1) != len(a2):
        return {"sig": "roundtrip|item-count", "value": v1}
    for x, y in zip(a1, a2):
        for attr in ("title", "displaytitle", "revision", "note", "content_type"):
            if getattr(x, attr, None) != getattr(y, attr, None):
                return {"sig": "roundtrip|attribute-changed|" + attr, "value": v1, "before": getattr(x, attr, None), "after": getattr(y, attr, None)}
    # defaults are per instance
    other = metabook.Collection()
    if other.items is c2.items or other.items is c.items or (c2.items and other.items):
        return {"sig": "shared-default-list", "value": v1}
    return None


def h_distinct(which: int, t0: str, t1: str, tnew: str, r0: int, rnew: int, hr0: bool):
    """two collections that differ in exactly one of {a title, a revision, the order, an item} have different JSON values"""
    metabook, _ = _mods()
    for t in (t0, t1, tnew):
        assume(len(t) <= 3)
    w = choose(which, 5)

    def mk(titles, rev, has_rev):
        c = metabook.Collection()
        for i, t in enumerate(titles):
            kw = {"revision": rev} if (has_rev and i == 0) else {}
            c.items.append(metabook.Article(title=t, **kw))
        return c

    a = mk([t0, t1], r0, hr0)
    if w == 0:
        assume(tnew != t0)
        b = mk([tnew, t1], r0, hr0)
    elif w == 1:
        assume(hr0 and rnew != r0)
        b = mk([t0, t1], rnew, True)
    elif w == 2:
        assume(t0 != t1 and not hr0)
        b = mk([t1, t0], r0, False)
    elif w == 3:
        b = mk([t0], r0, hr0)
    else:
        assume(hr0)
        b = mk([t0, t1], r0, False)  # revision pinned vs not pinned
    va, vb = dumps_model(a), dumps_model(b)
    if va == vb:
        return {"sig": "distinct-collections-same-json|" + ["title", "revision", "order", "item", "revision-presence"][w], "a": va, "b": vb}
    return None


MB_TYPES = ["collection", "chapter", "article", "source", "interwiki", "license", "wikiconf", "custom"]


def mutable_defaults():
    """{class name: {attribute: default}} for every list/dict-valued class-level default of the metabook classes (from the current source)"""
    metabook, _ = _mods()
    out = {}
    for name in dir(metabook):
        cls = getattr(metabook, name)
        if isinstance(cls, type) and issubclass(cls, metabook.MetabookObject):
            d = {}
            for k in dir(cls):
                if not k.startswith("__"):
                    v = getattr(cls, k)
                    if isinstance(v, (list, dict)):
                        d[k] = v
            out[name] = d
    return out


def extra_names():
    """attribute names a metabook JSON value may carry besides the declared ones: an unknown one plus every public name the
    classes themselves define (methods, properties) — harvested from the current source"""
    metabook, _ = _mods()
    names = ["note"]
    for cn in ("Article", "Collection", "Chapter"):
        for k in dir(getattr(metabook, cn)):
            if not k.startswith("_") and k not in names:
                v = getattr(getattr(metabook, cn), k)
                if callable(v) or isinstance(v, property):
                    names.append(k)
    return names


def h_json_first(tidx: int, nidx: int, val: str, t: str):
    """A JSON value written by someone else (any type, a title, one extra key whose name may coincide with a method or
    property of the class): loading and serializing it again keeps every key with its value."""
    metabook, myjson = _mods()
    assume(len(val) <= 2 and len(t) <= 2)
    typ = MB_TYPES[choose(tidx, len(MB_TYPES))]
    names = extra_names()
    name = names[choose(nidx, len(names))]
    v0 = {"type": typ, "title": t, name: val}
    obj = loads_model(v0)
    v1 = dumps_model(obj)
    if not isinstance(v1, dict):
        return {"sig": "json-first|not-an-object", "value": v0}
    for k, v in v0.items():
        if k == "type":
            continue
        if k not in v1 or v1[k] != v:
            return {"sig": "json-first|key-lost-or-changed", "value": v0, "key": k, "after": v1.get(k)}
    return None


def h_sparse(tidx: int, p0: bool, p1: bool, p2: bool, p3: bool, t: str):
    """An object loaded from a JSON value that carries only some of its keys (older / hand-written metabooks), then
    changed in place: no other instance, no fresh instance and no class-level default may see the change."""
    metabook, myjson = _mods()
    assume(len(t) <= 2)
    typ = MB_TYPES[choose(tidx, len(MB_TYPES))]
    def mkval():  # a JSON decoder builds fresh containers for every text it reads
        v_ = {"type": typ}
        for (k, v), present in zip([("title", t), ("items", []), ("licenses", []), ("wikis", [])], (p0, p1, p2, p3)):
            if present:
                v_[k] = v
        return v_

    val = mkval()
    before = {cn: {k: (list(v) if isinstance(v, list) else dict(v)) for k, v in d.items()} for cn, d in mutable_defaults().items()}
    a = loads_model(val)
    b = loads_model(mkval())
    if not isinstance(a, metabook.MetabookObject):
        return {"sig": "sparse|not-an-object", "value": val}
    touched = []
    for k, v in list(a.__dict__.items()):
        if isinstance(v, list):
            v.append("SENTINEL")
            touched.append(k)
        elif isinstance(v, dict):
            v["SENTINEL"] = 1
            touched.append(k)
    for k in touched:
        if "SENTINEL" in getattr(b, k):
            return {"sig": "shared-default|between-two-loaded-objects", "value": val, "attribute": k}
        fresh = a.__class__()
        if "SENTINEL" in getattr(fresh, k, ()):
            return {"sig": "shared-default|fresh-instance-sees-it", "value": val, "attribute": k}
    now = mutable_defaults()
    for cn, d in before.items():
        for k, v in d.items():
            if now[cn][k] != v:
                return {"sig": "shared-default|class-default-changed", "value": val, "class": cn, "attribute": k}
    # clean up whatever leaked (so that one path cannot poison the next)
    return None


# ---------------------------------------------------------------------------- collection id (pre-image of the hash)

ID_ALPHABET = "'\"\\a"  # both quote characters, the backslash (repr's escape) and a letter


class _Pre:
    """stands for sha256(...) inside nserve.make_collection_id: keeps the hashed text so that two requests can be compared
    on the pre-image (equal pre-image <=> equal id, sha256 assumed collision-free)"""

    def __init__(self, pre):
        self.pre = pre

    def hexdigest(self):
        return self

    def __getitem__(self, k):
        return self


class _NullOut:
    def write(self, s):
        pass

    def flush(self):
        pass


_MBS = []


def metabook_texts():
    """[(json text or None, equivalence class)]: same class = same metabook content in another JSON spelling"""
    if _MBS:
        return _MBS
    import json as pyjson

    metabook, myjson = _mods()

    def mk(items, **kw):
        c = metabook.Collection(**kw)
        for it in items:
            if isinstance(it, tuple):
                c.append_article(it[0], revision=it[1])
            elif it.startswith("#"):
                c.items.append(metabook.Chapter(title=it[1:]))
            else:
                c.append_article(it)
        return c.dumps()

    a = mk(["A"])
    plain = pyjson.loads(a)

    def respell(v, rev):
        if isinstance(v, dict):
            ks = sorted(v, reverse=rev)
            return {k: respell(v[k], rev) for k in ks}
        if isinstance(v, list):
            return [respell(x, rev) for x in v]
        return v

    _MBS.extend([
        (None, 0),
        (a, 1),
        (pyjson.dumps(respell(plain, True), separators=(",", ":")), 1),   # reversed key order, no whitespace
        (pyjson.dumps(respell(plain, False), indent=1), 1),               # other indentation
        (myjson.loads(a).dumps(), 1),                                      # re-serialized
        (mk([("A", 5)]), 2),                                               # a pinned revision
        (mk(["B"]), 3),
        (mk(["A", "B"]), 4),
        (mk(["B", "A"]), 5),
        (mk(["#A", "B"]), 6),                                              # B inside chapter A
        (mk(["A"], title="t"), 7),
    ])
    # attributes the classes do not declare (kept by MetabookObject): their order in the text must not matter either
    extra = pyjson.loads(a)
    extra["zz_extra"] = 1
    extra["aa_extra"] = 2
    extra["items"][0]["zz_note"] = "n"
    extra["items"][0]["aa_note"] = "m"
    _MBS.extend([(pyjson.dumps(respell(extra, False)), 8), (pyjson.dumps(respell(extra, True)), 8)])
    return _MBS


def collection_id_preimage(b, e, l, has_l, m):
    import sys

    from mwlib.core import nserve

    data = {"base_url": b, "script_extension": e}
    if has_l:
        data["login_credentials"] = l
    txt = metabook_texts()[m][0]
    if txt is not None:
        data["metabook"] = txt
    old, old_out = nserve.sha256, sys.stdout
    nserve.sha256 = _Pre
    sys.stdout = _NullOut()
    try:
        return nserve.make_collection_id(data).pre
    finally:
        nserve.sha256 = old
        sys.stdout = old_out


def h_collid_one(b: str, e: str, l: str, hl: bool, m: int, x: str, hx: bool, mx: int, which: int, maxlen: int = 2):
    """two requests that differ in at most one field (base_url / script_extension / login / metabook):
    the hashed text is the same iff the field has the same value (same metabook content for the metabook)"""
    for s_ in (b, e, x):
        assume(len(s_) <= maxlen and in_alphabet(s_, ID_ALPHABET))
    assume(len(l) <= 1 and in_alphabet(l, ID_ALPHABET))
    mbs = metabook_texts()
    if not hl:
        assume(l == "")
    # only the field under test (and its replacement) ranges freely; the others are fixed or tiny (field boundaries have their own cubes)
    if which == 0:
        assume(e == "" and not hl and m == 1)
        r1 = [b, e, "", False, 1]
        r2 = [x, e, "", False, 1]
        same = x == b
    elif which == 1:
        assume(b == "a" and not hl and m == 1)
        r1 = ["a", e, "", False, 1]
        r2 = ["a", x, "", False, 1]
        same = x == e
    elif which == 2:
        assume(b == "a" and e == "" and m == 1 and len(x) <= 1)
        if not hx:
            assume(x == "")
        r1 = ["a", "", l, hl, 1]
        r2 = ["a", "", x, hx, 1]
        same = (x == l and hx == hl)
    else:
        assume(len(b) <= 1 and e == "" and not hl and x == "" and not hx)
        m = choose(m, len(mbs))
        mx = choose(mx, len(mbs))
        r1 = [b, "", "", False, m]
        r2 = [b, "", "", False, mx]
        same = mbs[mx][1] == mbs[m][1]
    p1 = collection_id_preimage(*r1)
    p2 = collection_id_preimage(*r2)
    if (p1 == p2) != same:
        return {"sig": "collection-id|" + ("differs-for-equal-requests" if same else "same-for-different-requests") + "|" + ["base_url", "script_extension", "login", "metabook"][which],
                "r1": r1, "r2": r2}
    return None


def h_collid_split(u1: str, v1: str, u2: str, v2: str, pair: int):
    """two adjacent fields both vary (base_url+script_extension / script_extension+login): the field boundary is part of the id"""
    for s_ in (u1, v1, u2, v2):
        assume(len(s_) <= 1 and in_alphabet(s_, ID_ALPHABET))
    if pair == 0:
        r1, r2 = ["a" + u1, v1, "", False, 1], ["a" + u2, v2, "", False, 1]
    else:
        r1, r2 = ["a", u1, v1, True, 1], ["a", u2, v2, True, 1]
    same = (u1 == u2 and v1 == v2)
    p1 = collection_id_preimage(*r1)
    p2 = collection_id_preimage(*r2)
    if (p1 == p2) != same:
        return {"sig": "collection-id|same-for-different-requests|field-boundary", "r1": r1, "r2": r2}
    return None


def twin_nested(n: int, k0: int, k1: int):
    """Reachability: a chapter with an article inside is built and survives the round trip"""
    metabook, _ = _mods()
    kinds = [choose(k0, 3), choose(k1, 3)]
    c = make_collection(kinds, ["a", "b"], [1, 2], [True, False], [False, False], "note", "x", "t")
    c2 = loads_model(dumps_model(c))
    s = shape_of(c2)
    if s and s[1] and s[1][0][0] == "Chapter" and s[1][0][1]:
        return {"reached": s}
    return None


def build(tier: str) -> CheckSpec:
    metabook, myjson = _mods()
    tmo = 200 if tier == "quick" else 1500
    p = {"n": int, "k0": int, "k1": int, "k2": int, "t0": str, "t1": str, "t2": str, "r0": int, "r1": int, "r2": int,
         "hr0": bool, "hr1": bool, "hr2": bool, "d0": bool, "d1": bool, "d2": bool, "extra_val": str, "ctitle": str}
    cubes = [Cube("round trip, 0..3 items", h_roundtrip, p, {}, timeout=tmo, per_path_timeout=30, group="roundtrip"),
             Cube("distinct collections", h_distinct, {"which": int, "t0": str, "t1": str, "tnew": str, "r0": int, "rnew": int, "hr0": bool}, {}, timeout=tmo, group="distinct"),
             Cube("JSON value with an extra key -> load -> serialize", h_json_first, {"tidx": int, "nidx": int, "val": str, "t": str}, {}, timeout=tmo, group="roundtrip"),
             Cube("sparse JSON values, then in-place change", h_sparse, {"tidx": int, "p0": bool, "p1": bool, "p2": bool, "p3": bool, "t": str}, {}, timeout=tmo, group="defaults"),
             ] + [Cube(f"collection id: requests differing in {n}", h_collid_one, {"b": str, "e": str, "l": str, "hl": bool, "m": int, "x": str, "hx": bool, "mx": int},
                       {"which": w, "maxlen": 2 if tier == "quick" else 3}, timeout=tmo, per_path_timeout=30, group="collection-id") for w, n in enumerate(["base_url", "script_extension", "login", "metabook"])
             ] + [Cube(f"collection id: field boundary {n}", h_collid_split, {"u1": str, "v1": str, "u2": str, "v2": str}, {"pair": w}, timeout=tmo, per_path_timeout=30,
                       group="collection-id") for w, n in enumerate(["base_url|script_extension", "script_extension|login"])
             ] + [Cube("twin: nested chapter", twin_nested, {"n": int, "k0": int, "k1": int}, {}, timeout=60, role="twin")]
    return CheckSpec(
        property_id="C13",
        level="other",
        cubes=cubes,
        functions=[metabook.MetabookObject.__init__, metabook.MetabookObject._json, myjson.object_hook, myjson.MbEncoder.default, metabook.Collection.walk,
                   _nserve().make_collection_id, metabook.calc_checksum, metabook.Collection.dumps],
        bounds={"items": "0..3, each an article / a chapter opening (following articles nest into it) / an article with an unknown extra attribute",
                "titles": "symbolic strings <= 3 chars", "revisions": "symbolic ints, present or absent", "displaytitle": "present or absent",
                "collection id": "pairs of requests that differ in at most one of base_url / script_extension (symbolic strings <= 2 chars quick / 3 thorough over %r, the other fields fixed), login_credentials (absent or <= 1 char), "
                                 "metabook (13 JSON texts in 9 content classes: key order, whitespace, re-serialization, undeclared attributes, revision, title, order, chapter nesting, collection title); "
                                 "pairs where two adjacent fields both vary (<= 1 char each; field boundary)" % ID_ALPHABET,
                "json first": "JSON values of every type with a title and one extra key named 'note' or like any public method / property of the classes (harvested from the source), value <= 2 chars",
                "sparse": "JSON values of every metabook type carrying any subset of title / items / licenses / wikis, loaded twice, every list/dict attribute changed in place"},
        stubs=["nserve.sha256 -> object that keeps the hashed text (ids are compared on the pre-image); sys.stdout silenced inside make_collection_id",
               "JSON text layer (simplejson C encoder/decoder) modelled as the identity on JSON values: dumps_model / loads_model call MbEncoder.default and object_hook exactly where the real codec does"],
        assumptions=["simplejson renders and parses JSON values faithfully", "sha256 is collision-free on the texts compared (the replay compares real ids)", "equality of metabooks = same classes, order, nesting and attribute values"],
        outside=["SHA-256 itself and its truncation to 16 hex digits", "metabook texts other than the 13 listed (the checksum is a hash of a concrete text on every path)",
                 "requests that differ in several non-adjacent fields at once"],
        explanation="bounded symbolic execution of the object <-> JSON-value mapping on collections with symbolic shape, titles, revisions and optional fields: "
        "round trip, fixed point, per-instance defaults and value-level injectivity",
        replay=replay,
    )


def replay(cand: dict) -> dict:
    """the same collection through the real text codec (myjson.dumps / loads)"""
    metabook, myjson = _mods()
    a = cand["args"]
    if cand["fn"] == "h_roundtrip":
        n = a["n"]
        c = make_collection([a["k0"], a["k1"], a["k2"]][:n], [a["t0"], a["t1"], a["t2"]][:n], [a["r0"], a["r1"], a["r2"]],
                            [a["hr0"], a["hr1"], a["hr2"]], [a["d0"], a["d1"], a["d2"]], "note", a["extra_val"], a["ctitle"])
        s1 = myjson.dumps(c, sort_keys=True)
        c2 = myjson.loads(s1)
        s2 = myjson.dumps(c2, sort_keys=True)
        ok = isinstance(c2, metabook.Collection) and s1 == s2 and shape_of(c) == shape_of(c2)
        if ok:
            for x, y in zip(c.walk(), c2.walk()):
                for attr in ("title", "displaytitle", "revision", "note", "content_type"):
                    if getattr(x, attr, None) != getattr(y, attr, None):
                        return {"reproduced": True, "signature": "C13|roundtrip|attribute-changed",
                                "what": f"attribute {attr!r} = {getattr(x, attr, None)!r} comes back as {getattr(y, attr, None)!r} from myjson.loads(myjson.dumps(c)); JSON text: {s1[:160]!r}"}
        if ok:
            return {"reproduced": False, "what": "real myjson round trip is a fixed point for this collection"}
        return {"reproduced": True, "signature": "C13|roundtrip", "what": f"myjson.loads(myjson.dumps(c)) differs: {s1[:200]!r} -> {s2[:200]!r}"}
    if cand["fn"] == "h_json_first":
        import json as pyjson

        d = cand.get("concrete", {}).get("detail") or {}
        if "value" not in d:
            return {"reproduced": False, "what": "the concrete re-run of the harness keeps every key"}
        txt = pyjson.dumps(d["value"])
        back = pyjson.loads(myjson.dumps(myjson.loads(txt)))
        k = d["key"]
        if isinstance(back, dict) and back.get(k) == d["value"][k]:
            return {"reproduced": False, "what": "real codec keeps the key"}
        return {"reproduced": True, "signature": "C13|json-first|key-lost-or-changed",
                "what": f"myjson.dumps(myjson.loads({txt!r})) has {k!r} = {back.get(k) if isinstance(back, dict) else back!r} instead of {d['value'][k]!r}"}
    if cand["fn"] == "h_sparse":
        import json as pyjson

        d = cand.get("concrete", {}).get("detail") or {}
        if "value" not in d:
            return {"reproduced": False, "what": "the concrete re-run of the harness shows no sharing"}
        txt = pyjson.dumps(d["value"])
        x = myjson.loads(txt)
        y = myjson.loads(txt)
        k = d.get("attribute")
        if k is None or not hasattr(x, k):
            return {"reproduced": False, "what": "loaded object has no such attribute"}
        tgt = getattr(x, k)
        if isinstance(tgt, list):
            tgt.append("SENTINEL")
        else:
            tgt["SENTINEL"] = 1
        leaks = []
        if "SENTINEL" in getattr(y, k):
            leaks.append("another object loaded from the same text")
        if "SENTINEL" in getattr(x.__class__(), k):
            leaks.append("a fresh " + x.__class__.__name__ + "()")
        if "SENTINEL" in getattr(x.__class__, k, ()):
            leaks.append("the class-level default")
            try:
                getattr(x.__class__, k).remove("SENTINEL")
            except Exception:
                pass
        if not leaks:
            return {"reproduced": False, "what": "no sharing on the real codec"}
        return {"reproduced": True, "signature": "C13|shared-default", "what": f"myjson.loads({txt!r}).{k} is shared with " + ", ".join(leaks)}
    if cand["fn"] in ("h_collid_one", "h_collid_split"):
        d = cand.get("concrete", {}).get("detail") or {}
        if "r1" not in d:
            return {"reproduced": False, "error": "no concrete detail"}
        nserve = _nserve()
        import sys
        ids = []
        for r in (d["r1"], d["r2"]):
            data = {"base_url": r[0], "script_extension": r[1]}
            if r[3]:
                data["login_credentials"] = r[2]
            txt = metabook_texts()[r[4]][0]
            if txt is not None:
                data["metabook"] = txt
            old = sys.stdout
            sys.stdout = _NullOut()
            try:
                ids.append(nserve.make_collection_id(data))
            finally:
                sys.stdout = old
        want_same = "differs-for-equal" in d["sig"]
        got_same = ids[0] == ids[1]
        if got_same == want_same:
            return {"reproduced": False, "what": f"real ids {ids} behave as required"}
        return {"reproduced": True, "signature": "C13|" + d["sig"],
                "what": f"nserve.make_collection_id gives {ids[0]} and {ids[1]} for requests {d['r1'][:4]}+metabook#{d['r1'][4]} and {d['r2'][:4]}+metabook#{d['r2'][4]}"
                        + (" (same content, different id)" if want_same else " (different requests, same id)")}
    r = h_distinct(**{k: a[k] for k in ("which", "t0", "t1", "tnew", "r0", "rnew", "hr0")})
    if r is None:
        return {"reproduced": False, "what": "values differ on the real classes"}
    return {"reproduced": True, "signature": "C13|" + r["sig"], "what": f"two different collections serialize to the same JSON value {r['a']!r}"}
