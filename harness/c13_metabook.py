"""C13 — metabooks round-trip through JSON (object <-> JSON-value layer).

simplejson's text codec (C speed-ups) and SHA-256 cannot be executed symbolically; what mwlib contributes is the
typed-object <-> dict mapping: MetabookObject.__init__/_json, myjson.object_hook, MbEncoder.default.  The JSON text
layer is modelled as the identity on JSON values: dumps_model applies MbEncoder.default wherever the real encoder
would (on non-JSON objects), loads_model applies object_hook bottom-up to every dict, as the real decoder does.
"""
from vlib.runner import CheckSpec, Cube
from vlib.sym import assume, choose


def _mods():
    import mwlib.core.metabook  # noqa: F401
    from mwlib.core import metabook
    from mwlib.utils import myjson

    for a in ("object_hook", "MbEncoder"):
        if not hasattr(myjson, a):
            raise RuntimeError("stub target myjson.%s is gone" % a)
    return metabook, myjson


def dumps_model(obj):
    """JSON value the real encoder would emit (before text rendering)"""
    metabook, myjson = _mods()
    if obj is None or isinstance(obj, (str, int, float, bool)):
        return obj
    if isinstance(obj, (list, tuple)):
        return [dumps_model(x) for x in obj]
    if isinstance(obj, dict):
        return {k: dumps_model(v) for k, v in obj.items()}
    return dumps_model(myjson.MbEncoder().default(obj))


def loads_model(val):
    """object the real decoder would build: object_hook applied bottom-up to every JSON object"""
    metabook, myjson = _mods()
    if isinstance(val, list):
        return [loads_model(x) for x in val]
    if isinstance(val, dict):
        return myjson.object_hook({k: loads_model(v) for k, v in val.items()})
    return val


def shape_of(obj):
    """class names, order and nesting (what 'equal metabook' means structurally)"""
    metabook, _ = _mods()
    if isinstance(obj, metabook.MetabookObject):
        return [obj.__class__.__name__, [shape_of(x) for x in getattr(obj, "items", []) or []]]
    return None


def make_collection(kinds, titles, revs, has_rev, disp, extra_name, extra_val, ctitle):
    metabook, _ = _mods()
    c = metabook.Collection(title=ctitle)
    cur_chapter = None
    for i, k in enumerate(kinds):
        if k == 0:
            kw = {}
            if has_rev[i]:
                kw["revision"] = revs[i]
            if disp[i]:
                kw["displaytitle"] = titles[i] + "!"
            a = metabook.Article(title=titles[i], **kw)
            (cur_chapter.items if cur_chapter is not None else c.items).append(a)
        elif k == 1:
            cur_chapter = metabook.Chapter(title=titles[i])
            c.items.append(cur_chapter)
        else:
            cur_chapter = None
            a = metabook.Article(title=titles[i], **{extra_name: extra_val})
            c.items.append(a)
    return c


def h_roundtrip(n: int, k0: int, k1: int, k2: int, t0: str, t1: str, t2: str, r0: int, r1: int, r2: int,
                hr0: bool, hr1: bool, hr2: bool, d0: bool, d1: bool, d2: bool, extra_val: str, ctitle: str):
    metabook, myjson = _mods()
    n = choose(n, 4)
    kinds = [choose(k, 3) for k in (k0, k1, k2)][:n]
    titles = [t0, t1, t2][:n]
    for t in titles + [extra_val, ctitle]:
        assume(len(t) <= 3)
    c = make_collection(kinds, titles, [r0, r1, r2], [hr0, hr1, hr2], [d0, d1, d2], "note", extra_val, ctitle)
    v1 = dumps_model(c)
    c2 = loads_model(v1)
    if not isinstance(c2, metabook.Collection):
        return {"sig": "roundtrip|not-a-collection", "value": v1}
    if shape_of(c2) != shape_of(c):
        return {"sig": "roundtrip|structure-changed", "before": shape_of(c), "after": shape_of(c2), "value": v1}
    v2 = dumps_model(c2)
    if v2 != v1:
        return {"sig": "roundtrip|not-a-fixed-point", "first": v1, "second": v2}
    # same attributes item by item
    a1, a2 = c.walk(), c2.walk()
    if len(a1) != len(a2):
        return {"sig": "roundtrip|item-count", "value": v1}
    for x, y in zip(a1, a2):
        for attr in ("title", "displaytitle", "revision", "note", "content_type"):
            if getattr(x, attr, None) != getattr(y, attr, None):
                return {"sig": "roundtrip|attribute-changed|" + attr, "value": v1, "before": getattr(x, attr, None), "after": getattr(y, attr, None)}
    # defaults are per instance
    other = metabook.Collection()
    if other.items is c2.items or other.items is c.items or (c2.items and other.items):
        return {"sig": "shared-default-list", "value": v1}
    return None


def h_distinct(which: int, t0: str, t1: str, tnew: str, r0: int, rnew: int, hr0: bool):
    """two collections that differ in exactly one of {a title, a revision, the order, an item} have different JSON values"""
    metabook, _ = _mods()
    for t in (t0, t1, tnew):
        assume(len(t) <= 3)
    w = choose(which, 5)

    def mk(titles, rev, has_rev):
        c = metabook.Collection()
        for i, t in enumerate(titles):
            kw = {"revision": rev} if (has_rev and i == 0) else {}
            c.items.append(metabook.Article(title=t, **kw))
        return c

    a = mk([t0, t1], r0, hr0)
    if w == 0:
        assume(tnew != t0)
        b = mk([tnew, t1], r0, hr0)
    elif w == 1:
        assume(hr0 and rnew != r0)
        b = mk([t0, t1], rnew, True)
    elif w == 2:
        assume(t0 != t1 and not hr0)
        b = mk([t1, t0], r0, False)
    elif w == 3:
        b = mk([t0], r0, hr0)
    else:
        assume(hr0)
        b = mk([t0, t1], r0, False)  # revision pinned vs not pinned
    va, vb = dumps_model(a), dumps_model(b)
    if va == vb:
        return {"sig": "distinct-collections-same-json|" + ["title", "revision", "order", "item", "revision-presence"][w], "a": va, "b": vb}
    return None


def twin_nested(n: int, k0: int, k1: int):
    """Reachability: a chapter with an article inside is built and survives the round trip"""
    metabook, _ = _mods()
    kinds = [choose(k0, 3), choose(k1, 3)]
    c = make_collection(kinds, ["a", "b"], [1, 2], [True, False], [False, False], "note", "x", "t")
    c2 = loads_model(dumps_model(c))
    s = shape_of(c2)
    if s and s[1] and s[1][0][0] == "Chapter" and s[1][0][1]:
        return {"reached": s}
    return None


def build(tier: str) -> CheckSpec:
    metabook, myjson = _mods()
    tmo = 200 if tier == "quick" else 1500
    p = {"n": int, "k0": int, "k1": int, "k2": int, "t0": str, "t1": str, "t2": str, "r0": int, "r1": int, "r2": int,
         "hr0": bool, "hr1": bool, "hr2": bool, "d0": bool, "d1": bool, "d2": bool, "extra_val": str, "ctitle": str}
    cubes = [Cube("round trip, 0..3 items", h_roundtrip, p, {}, timeout=tmo, per_path_timeout=30, group="roundtrip"),
             Cube("distinct collections", h_distinct, {"which": int, "t0": str, "t1": str, "tnew": str, "r0": int, "rnew": int, "hr0": bool}, {}, timeout=tmo, group="distinct"),
             Cube("twin: nested chapter", twin_nested, {"n": int, "k0": int, "k1": int}, {}, timeout=60, role="twin")]
    return CheckSpec(
        property_id="C13",
        level="other",
        cubes=cubes,
        functions=[metabook.MetabookObject.__init__, metabook.MetabookObject._json, myjson.object_hook, myjson.MbEncoder.default, metabook.Collection.walk],
        bounds={"items": "0..3, each an article / a chapter opening (following articles nest into it) / an article with an unknown extra attribute",
                "titles": "symbolic strings <= 3 chars", "revisions": "symbolic ints, present or absent", "displaytitle": "present or absent"},
        stubs=["JSON text layer (simplejson C encoder/decoder) modelled as the identity on JSON values: dumps_model / loads_model call MbEncoder.default and object_hook exactly where the real codec does"],
        assumptions=["simplejson renders and parses JSON values faithfully", "equality of metabooks = same classes, order, nesting and attribute values"],
        outside=["key order / whitespace invariance of the text, sort_keys, SHA-256 and its truncation, make_collection_id's repr() concatenation (C code / hashing: not executable symbolically)"],
        explanation="bounded symbolic execution of the object <-> JSON-value mapping on collections with symbolic shape, titles, revisions and optional fields: "
        "round trip, fixed point, per-instance defaults and value-level injectivity",
        replay=replay,
    )


def replay(cand: dict) -> dict:
    """the same collection through the real text codec (myjson.dumps / loads)"""
    metabook, myjson = _mods()
    a = cand["args"]
    if cand["fn"] == "h_roundtrip":
        n = a["n"]
        c = make_collection([a["k0"], a["k1"], a["k2"]][:n], [a["t0"], a["t1"], a["t2"]][:n], [a["r0"], a["r1"], a["r2"]],
                            [a["hr0"], a["hr1"], a["hr2"]], [a["d0"], a["d1"], a["d2"]], "note", a["extra_val"], a["ctitle"])
        s1 = myjson.dumps(c, sort_keys=True)
        c2 = myjson.loads(s1)
        s2 = myjson.dumps(c2, sort_keys=True)
        ok = isinstance(c2, metabook.Collection) and s1 == s2 and shape_of(c) == shape_of(c2)
        if ok:
            for x, y in zip(c.walk(), c2.walk()):
                for attr in ("title", "displaytitle", "revision", "note", "content_type"):
                    if getattr(x, attr, None) != getattr(y, attr, None):
                        return {"reproduced": True, "signature": "C13|roundtrip|attribute-changed",
                                "what": f"attribute {attr!r} = {getattr(x, attr, None)!r} comes back as {getattr(y, attr, None)!r} from myjson.loads(myjson.dumps(c)); JSON text: {s1[:160]!r}"}
        if ok:
            return {"reproduced": False, "what": "real myjson round trip is a fixed point for this collection"}
        return {"reproduced": True, "signature": "C13|roundtrip", "what": f"myjson.loads(myjson.dumps(c)) differs: {s1[:200]!r} -> {s2[:200]!r}"}
    r = h_distinct(**{k: a[k] for k in ("which", "t0", "t1", "tnew", "r0", "rnew", "hr0")})
    if r is None:
        return {"reproduced": False, "what": "values differ on the real classes"}
    return {"reproduced": True, "signature": "C13|" + r["sig"], "what": f"two different collections serialize to the same JSON value {r['a']!r}"}
