"""C05 — document trees stay well-formed and meet the writers' structural contract (shares the C06 exploration)."""
from harness import c06_passes, treecommon as T
from vlib.runner import CheckSpec

PROPS = ("C05",)


def build(tier: str) -> CheckSpec:
    spec = c06_passes.build(tier, props=PROPS, pid="C05")
    spec.replay = replay
    spec.explanation = ("bounded symbolic execution of build_advanced_tree + every cleaning pass on documents composed from a fragment catalogue (symbolic id/class/style of one node); "
                        "after the tree is built and after every single pass the repository's own validators (_validate_parser_tree, _validate_parents) run, and after the full sequence "
                        "the container contract (tables: rows/captions, rows: cells, lists: items, cells/rows/items inside their containers, text leaves childless) is checked")
    return spec


def replay(cand: dict) -> dict:
    return T.replay_tree(cand, PROPS)
