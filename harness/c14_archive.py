"""C14 — what is written into a collection archive is what is read back (record framing, lookup, image-name escaping).

Real code: fetch.FsOutput.write_pages / write_expanded_page (writer side), nuwiki.NuWiki._read_revisions / _get_page
(reader side), unorganized.fs_escape, NsHandler.get_fqname.  zip / sqlite I/O is replaced by an in-memory file.
"""
import json as _json

from vlib.runner import CheckSpec, Cube
from vlib.sym import assume, choose, in_alphabet, pinned, untraced

SEP = "\n\x0c --page-- "
TITLES = ["Alpha", "Beta gamma", "Template:Tpl", "Käse", "User talk:X y", "中文"]


def _mods():
    import mwlib.core.metabook  # noqa: F401
    from mwlib.core import nshandling, nuwiki
    from mwlib.network import fetch, siteinfo
    from mwlib.utils import unorganized

    for m, names in ((fetch, ("FsOutput",)), (nuwiki, ("NuWiki", "Page", "os")), (unorganized, ("fs_escape",))):
        for n in names:
            if not hasattr(m, n):
                raise RuntimeError(f"stub target {m.__name__}.{n} is gone")
    return fetch, nuwiki, unorganized, nshandling, siteinfo


class _Rev:
    def __init__(self):
        self.parts = []

    def write(self, s):
        self.parts.append(s)

    def getvalue(self):
        return "".join(self.parts)


class _OsShim:
    def __init__(self, files):
        import os

        self._os = os
        self.path = _PathShim(files)

    def __getattr__(self, n):
        return getattr(self._os, n)


class _PathShim:
    def __init__(self, files):
        import os

        self._p = os.path
        self.files = files

    def exists(self, p):
        return p in self.files

    def __getattr__(self, n):
        return getattr(self._p, n)


class _BytesFile:
    def __init__(self, data):
        self.data = data

    def read(self):
        return self.data

    def __enter__(self):
        return self

    def __exit__(self, *a):
        return False


def _model_open(files):
    """open() of the model FS: binary mode returns the bytes; text mode decodes and applies universal newlines, as Python does"""

    def _open(p, mode="r", *a, **k):
        data = files[p]
        if "b" in mode:
            return _BytesFile(data)
        text = data.decode(k.get("encoding") or "utf-8")
        if k.get("newline", None) is None:
            text = text.replace("\r\n", "\n").replace("\r", "\n")
        return _BytesFile(text)

    return _open


def write_and_read(pages, expanded, redirects=None):
    """pages: [(title, ns, revid|None, text)] written in this order by the real writer, read back by the real reader"""
    fetch, nuwiki, unorganized, nshandling, siteinfo = _mods()
    out = fetch.FsOutput.__new__(fetch.FsOutput)
    out.revfile = _Rev()
    out.seen = {}
    for i, (title, ns, revid, text) in enumerate(pages):
        if expanded[i]:
            out.write_expanded_page(title, ns, text, revid=revid)
        else:
            rev = {"*": text}
            if revid is not None:
                rev["revid"] = revid
            out.write_pages({"pages": {"1": {"title": title, "ns": ns, "revisions": [rev]}}})
    content = out.revfile.getvalue()
    files = {"/m/revisions-1.txt": content.encode("utf-8")}
    nw = nuwiki.NuWiki.__new__(nuwiki.NuWiki)
    nw.path = "/m"
    nw.excluded = []
    nw.revisions = {}
    nw.redirects = dict(redirects or {})
    nw.nshandler = nshandling.NsHandler(siteinfo.get_siteinfo("en"))
    saved_os, had_open, saved_open = nuwiki.os, "open" in nuwiki.__dict__, nuwiki.__dict__.get("open")
    nuwiki.os = _OsShim(files)
    nuwiki.open = _model_open(files)
    try:
        nw._read_revisions()
    finally:
        nuwiki.os = saved_os
        if had_open:
            nuwiki.open = saved_open
        else:
            del nuwiki.open
    return nw, content


FILL = ["", "x", "\n", "{\"a\": 1}", "l1\r\nl2", "t\r"]


def h_framing(a_i: int, a_j: int, fa: int, b_l: int, c_i: int, c_j: int, fc: int, exp: bool, swap: bool, family: str):
    """Two pages; t1 = SEP[a_i:a_j] + filler + SEP[0:b_l], t2 = SEP[c_i:c_j] + filler.  Family A explores how a text may START
    (fragments of the separator after the header's newline), family B how a text may END in front of the next record and
    how the next text starts.  Each page must be read back verbatim under its revision id."""
    n = len(SEP)
    if family == "A":
        a_j = choose(a_j, n + 1)
        assume(a_i <= a_j)
        t1 = SEP[a_i:a_j] + FILL[choose(fa, len(FILL))]
        t2 = "y"
    else:
        c_i, c_j = choose(c_i, n + 1), choose(c_j, n + 1)
        assume(c_i <= c_j)
        t1 = FILL[choose(fa, len(FILL))] + SEP[0:b_l]
        t2 = SEP[c_i:c_j] + FILL[choose(fc, len(FILL))]
    assume(SEP not in t1 and SEP not in t2)  # texts containing the separator are outside the format
    r1, r2 = (10, 9) if swap else (9, 10)  # revision ids go through simplejson's C encoder: concrete, both orders, different digit counts
    pages = [("Alpha", 0, r1, t1), ("Beta gamma", 0, r2, t2)]
    return untraced(_framing_concrete, pages, bool(exp))


def _framing_concrete(pages, exp):
    try:
        nw, content = write_and_read(pages, [exp, exp])
    except Exception as e:
        return {"sig": "framing|reader-raises-" + type(e).__name__, "pages": [[t, r, x] for t, _, r, x in pages], "expanded": [exp, exp], "detail": str(e)[:100]}
    for title, ns, revid, text in pages:
        p = nw.revisions.get(revid)
        if p is None or p.rawtext != text or p.title != title:
            return {"sig": "framing|text-not-read-back", "pages": [[t, r, x] for t, _, r, x in pages], "expanded": [exp, exp],
                    "read": None if p is None else [p.title, p.rawtext], "wanted": [title, text]}
    return None


def h_lookup(ta: int, tb: int, ra: int, rb: int, rc: int, order: int, text_a: str, text_b: str, text_c: str, redirect: bool, stub: bool = False):
    """several revisions of one title in any order: lookup by revid, by title (newest stored revision), through a redirect
    (whose source may itself be stored as a page: the #REDIRECT stub revision fetched by revision id)"""
    ta = choose(ta, len(TITLES))
    tb = (ta + 1) % len(TITLES)
    IDS = [9, 10, 101]  # concrete ids (simplejson is C) of different digit counts; every order type of three distinct ids
    ra, rb, rc = IDS[choose(ra, 3)], IDS[choose(rb, 3)], IDS[choose(rc, 3)]
    assume(ra != rb and ra != rc and rb != rc)
    assume(len(text_a) <= 1 and in_alphabet(text_a, "x\n\r "))
    text_a, text_b, text_c = pinned(text_a), "", "\n"
    A, B = TITLES[ta], TITLES[tb]
    pages = [(A, 0, ra, "A1" + text_a), (A, 0, rb, "A2" + text_b), (B, 0, rc, "B" + text_c)]
    if stub:
        assume(redirect)
        pages[2] = ("Old name", 0, rc, "#REDIRECT [[%s]]" % A)
    perm = [[0, 1, 2], [0, 2, 1], [1, 0, 2], [1, 2, 0], [2, 0, 1], [2, 1, 0]][choose(order, 6)]
    pages = [pages[x] for x in perm]
    reds = {"Old name": A} if redirect else {}
    return untraced(_lookup_concrete, pages, reds, bool(redirect), A, ("A1" + text_a) if ra > rb else ("A2" + text_b))


def _lookup_concrete(pages, reds, redirect, A, newest):
    nw, content = write_and_read(pages, [False, False, False], reds)
    for title, ns, revid, text in pages:
        p = nw.get_page(title, revid)
        if title in reds:
            text = newest  # a stored #REDIRECT stub resolves to its target page, also when asked for by revision id (by design)
        if p is None or p.rawtext != text:
            return {"sig": "lookup|by-revid", "pages": [[t, r, x] for t, _, r, x in pages], "redirects": reds, "target": A, "asked": [title, revid], "got": None if p is None else p.rawtext}
    p = nw.get_page(A)
    if p is None or p.rawtext != newest:
        return {"sig": "lookup|by-title-newest", "pages": [[t, r, x] for t, _, r, x in pages], "asked": A, "got": None if p is None else p.rawtext, "wanted": newest}
    p = nw.normalize_and_get_page(A.replace(" ", "_"), 0)
    if p is None or p.rawtext != newest:
        return {"sig": "lookup|by-spelling", "pages": [[t, r, x] for t, _, r, x in pages], "asked": A.replace(" ", "_"), "got": None if p is None else p.rawtext}
    if redirect:
        for asked, p in (("Old name", nw.get_page("Old name")), ("old_name", nw.normalize_and_get_page("old_name", 0))):
            if p is None or p.rawtext != newest:
                return {"sig": "lookup|redirect", "pages": [[t, r, x] for t, _, r, x in pages], "redirects": reds, "target": A, "asked": asked,
                        "got": None if p is None else p.rawtext, "wanted": newest}
    return None


ESC_ALPHABET = "aZ0 ._~-é中"


def fs_unescape(s):
    """reference decoder of fs_escape's encoding (within the property's title alphabet)"""
    out, i = [], 0
    while i < len(s):
        c = s[i]
        if c != "~":
            out.append(c)
            i += 1
            continue
        if s[i:i + 2] == "~~":
            out.append("~")
            i += 2
            continue
        j = s.find("~", i + 1)
        if j < 0 or not s[i + 1:j].isdigit():
            return None
        out.append(chr(int(s[i + 1:j])))
        i = j + 1
    return "".join(out)


def h_escape(t: str, maxlen: int):
    """fs_escape is decodable (hence injective) on titles over letters, digits, space and - . _ ~ (space/underscore identified)"""
    fetch, nuwiki, unorganized, nshandling, siteinfo = _mods()
    assume(1 <= len(t) <= maxlen)
    assume(in_alphabet(t, ESC_ALPHABET))
    t = pinned(t)
    assume(t == t.strip())

    def go():
        e = unorganized.fs_escape(t)
        if fs_unescape(e) != t.replace(" ", "_"):
            return {"sig": "fs_escape|not-decodable", "title": t, "escaped": e, "decoded": fs_unescape(e)}
        return None

    return untraced(go)


def h_image_spelling(ns: int, cap: bool, sep: int, name: str):
    """an image stored under its canonical title is addressed by the same file name under every equivalent spelling"""
    fetch, nuwiki, unorganized, nshandling, siteinfo = _mods()
    assume(1 <= len(name) <= 3 and in_alphabet(name, "aB é"))
    name = pinned(name)
    assume(name == name.strip() and "  " not in name)
    spell = ["Datei", "datei", "File", "IMAGE", "Bild", "image"][choose(ns, 6)]
    sepc = ["_", " ", "__"][choose(sep, 3)]
    cap = bool(cap)
    return untraced(_image_concrete, spell, sepc, cap, name)


def _image_concrete(spell, sepc, cap, name):
    fetch, nuwiki, unorganized, nshandling, siteinfo = _mods()
    h = nshandling.NsHandler(siteinfo.get_siteinfo("de"))
    stem = name + ".png"
    canonical = h.get_fqname("Datei:" + stem[:1].upper() + stem[1:], 6)
    variant = spell + ":" + (stem[:1].upper() + stem[1:] if cap else stem).replace(" ", sepc)
    a = unorganized.fs_escape(canonical)
    b = unorganized.fs_escape(h.get_fqname(variant, 6))
    if a != b:
        return {"sig": "image-spelling|different-file-name", "canonical": canonical, "variant": variant, "names": [a, b]}
    return None


def twin_boundary(a_i: int, a_j: int):
    """Reachability: a text starting with a separator fragment is written and read back"""
    n = len(SEP)
    a_i, a_j = choose(a_i, n + 1), choose(a_j, n + 1)
    assume(a_i < a_j)
    t = SEP[a_i:a_j] + "x"
    assume(SEP not in t)
    nw, content = write_and_read([("Alpha", 0, 5, t)], [False])
    p = nw.revisions.get(5)
    if p is not None and p.rawtext == t and len(t) > 5:
        return {"reached": t}
    return None


def build(tier: str) -> CheckSpec:
    fetch, nuwiki, unorganized, nshandling, siteinfo = _mods()
    q = tier == "quick"
    tmo = 240 if q else 1800
    cubes = []
    fp = {"a_j": int, "fa": int, "c_i": int, "c_j": int, "fc": int, "exp": bool, "swap": bool}
    n = len(SEP)
    for i in range(n + 1):
        cubes.append(Cube(f"framing A: text starts with separator[{i}:j]", h_framing, fp, {"family": "A", "a_i": i, "b_l": 0}, timeout=tmo, per_path_timeout=30, group="framing"))
        if i < n:
            cubes.append(Cube(f"framing B: text ends with separator[0:{i}], next text starts with separator[i:j]", h_framing, fp,
                              {"family": "B", "a_i": 0, "b_l": i}, timeout=tmo, per_path_timeout=30, group="framing"))
    cubes.append(Cube("lookup: revisions, order, redirect", h_lookup,
                      {"ta": int, "tb": int, "ra": int, "rb": int, "rc": int, "order": int, "text_a": str, "text_b": str, "text_c": str, "redirect": bool, "stub": bool},
                      {}, timeout=tmo, per_path_timeout=30, group="lookup"))
    cubes.append(Cube("fs_escape decodable", h_escape, {"t": str}, {"maxlen": 3 if q else 5}, timeout=tmo, group="fs_escape"))
    cubes.append(Cube("image spellings", h_image_spelling, {"ns": int, "cap": bool, "sep": int, "name": str}, {}, timeout=tmo, group="image"))
    cubes.append(Cube("twin: boundary text round trip", twin_boundary, {"a_i": int, "a_j": int}, {}, timeout=60, role="twin"))
    return CheckSpec(
        property_id="C14",
        level="other",
        cubes=cubes,
        functions=[fetch.FsOutput.write_pages, fetch.FsOutput.write_expanded_page, nuwiki.NuWiki._read_revisions, nuwiki.NuWiki._get_page,
                   nuwiki.NuWiki.normalize_and_get_page, unorganized.fs_escape, unorganized.python2sort, nshandling.NsHandler.get_fqname],
        bounds={"framing texts": "family A: first text = separator[i:j] + filler for all 0<=i<=j<=12; family B: first text = filler + separator[0:l], second text = separator[i:j] + filler; filler in {'', 'x', newline, JSON-looking, 'l1 CR LF l2', 't CR'}; both writers, both id orders; texts containing the whole separator excluded",
                "lookup": "3 pages: two revisions of one title and another title out of %r, revision ids: every order type of three distinct ids, all 6 write orders, texts <= 2 chars, optional redirect whose source is stored as a #REDIRECT stub page or not" % TITLES,
                "fs_escape": "titles <= %d chars over %r" % (3 if q else 5, ESC_ALPHABET), "image spellings": "6 namespace spellings x first-letter case x 3 separators x names <= 3 chars"},
        stubs=["FsOutput / NuWiki instances built with __new__; revisions file = in-memory buffer served through nuwiki.open / nuwiki.os.path.exists stubs (zip, sqlite and the directory tree are not executed)"],
        assumptions=["boundary collisions of the record format can only involve fragments of the separator itself, so texts are generated as separator fragments around a filler (pinned: enumerated by the solver)",
                     "titles are canonical as the MediaWiki API returns them"],
        outside=["zipfile / sqlitedict / symlink creation", "titles with %XX sequences (excluded by the property)", "arbitrary long texts"],
        explanation="bounded symbolic execution of the writer and the reader of the revisions file against each other: separator-fragment texts, every order of the revision ids, write order "
        "and redirects; every page must be read back verbatim under revid, title and spelling; fs_escape must be decodable on the property's title alphabet",
        replay=replay,
    )


def replay(cand: dict) -> dict:
    """real FsOutput writing a real directory, real NuWiki reading it"""
    import os
    import shutil
    import tempfile

    d = cand.get("concrete", {}).get("detail")
    if not isinstance(d, dict):
        return {"reproduced": False, "error": "no concrete detail"}
    fetch, nuwiki, unorganized, nshandling, siteinfo = _mods()
    if d["sig"].startswith("fs_escape") or d["sig"].startswith("image-spelling"):
        a = cand["args"]
        r = h_escape(a["t"], a["maxlen"]) if d["sig"].startswith("fs_escape") else h_image_spelling(a["ns"], a["cap"], a["sep"], a["name"])
        if r is None:
            return {"reproduced": False, "what": "holds on the real function"}
        return {"reproduced": True, "signature": "C14|" + r["sig"], "what": _json.dumps(r, ensure_ascii=False)[:300]}
    work = tempfile.mkdtemp(prefix="c14-replay-")
    try:
        path = os.path.join(work, "nuwiki")
        out = fetch.FsOutput(path)
        pages = d["pages"]
        expanded = d.get("expanded") or [False] * len(pages)
        for (title, revid, text), ex in zip(pages, expanded):
            if ex:
                out.write_expanded_page(title, 0, text, revid=revid)
            else:
                out.write_pages({"pages": {"1": {"title": title, "ns": 0, "revisions": [{"*": text, "revid": revid}]}}})
        out.write_siteinfo(siteinfo.get_siteinfo("en"))
        out.write_redirects(d.get("redirects") or {})
        out.close()
        for db in ("authors", "html", "imageinfo"):
            getattr(out, db).close()
        try:
            nw = nuwiki.NuWiki(path)
        except Exception as e:
            return {"reproduced": True, "signature": "C14|framing|boundary",
                    "what": f"pages {[(t, x) for t, r, x in pages]!r} written by FsOutput make NuWiki(path) raise {type(e).__name__}: {e}"}
        bad = []
        reds = d.get("redirects") or {}
        for title, revid, text in pages:
            p = nw.get_page(title, revid)
            if title in reds:  # a stored #REDIRECT stub resolves to its target, also by revision id
                text = max((r, t, x) for t, r, x in pages if t == reds[title])[2]
            if p is None or p.rawtext != text:
                bad.append((title, revid, text, None if p is None else p.rawtext))
        if d["sig"].startswith("lookup") and not bad:
            newest = max((r, t, x) for t, r, x in pages if t == pages[0][0])
            p = nw.get_page(newest[1])
            if p is None or p.rawtext != newest[2]:
                bad.append((newest[1], "newest", newest[2], None if p is None else p.rawtext))
        if d["sig"] == "lookup|redirect" and not bad:
            tgt = d["target"]
            newest = max((r, t, x) for t, r, x in pages if t == tgt)
            for src in d.get("redirects") or {}:
                p = nw.get_page(src)
                if p is None or p.rawtext != newest[2]:
                    bad.append((src, "redirect to " + tgt, newest[2], None if p is None else p.rawtext))
        if bad:
            kind = "boundary" if d["sig"].startswith("framing") else d["sig"].split("|")[1]
            return {"reproduced": True, "signature": "C14|" + d["sig"].split("|")[0] + "|" + kind,
                    "what": f"wrote {bad[0][2]!r} for {bad[0][0]!r} (revid {bad[0][1]}), NuWiki reads back {bad[0][3]!r}"}
        return {"reproduced": False, "what": "real FsOutput/NuWiki round trip returns every text"}
    finally:
        shutil.rmtree(work, ignore_errors=True)
