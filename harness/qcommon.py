"""Shared by the queue checks C16 / C17 / C18: module loading, BMC harness, replay."""
import os
import sys

from vlib.stubs import qsim
from vlib.sym import assume

_mods = {}


def load_modules(strip_logging=True):
    """qs.jobs / qs.qserve from the current working tree (log statements stripped for the symbolic run)."""
    if "jobs" in _mods:
        return _mods["jobs"], _mods["qserve"]
    if strip_logging:
        from vlib.srcload import load_without_logging

        import qs.log  # noqa: F401
        import qs.rpcserver  # noqa: F401  (imported by qserve; not executed)

        jobs = load_without_logging("qs.jobs")
        qserve = load_without_logging("qs.qserve")
    else:
        import qs.jobs as jobs
        import qs.qserve as qserve
    for mod, attrs in ((jobs, ("event", "time", "random", "workq", "job")), (qserve, ("QPlugin", "db"))):
        for a in attrs:
            if not hasattr(mod, a):
                raise RuntimeError(f"stub target {mod.__name__}.{a} is gone")
    _mods["jobs"], _mods["qserve"] = jobs, qserve
    return jobs, qserve


def setup():
    load_modules(True)


def h_bmc(K: int, alphabet: tuple, props: tuple, prefix: tuple = (), nchoices: int = 2, **sym):
    """K operations with symbolic kind and arguments from the empty queue, then the conservation drain.
    `prefix` fixes the kinds of the first operations (sharding); everything else is symbolic."""
    jobs, qserve = load_modules()
    ops = []
    clock = qsim.TICK in alphabet
    for i in range(1, K + 1):
        if i <= len(prefix):
            o = prefix[i - 1]
        else:
            o = sym["o%d" % i]
            ok = False
            for x in alphabet:
                if o == x:
                    ok = True
                    break
            assume(ok)
        c = sym["c%d" % i]
        if not clock:
            c = 100  # no clock operation in this alphabet: deadlines are never observed, keep them concrete
        ops.append((o, sym["a%d" % i], sym["b%d" % i], c))
    choices = [sym["r%d" % i] for i in range(1, nchoices + 1)]
    return qsim.run_schedule(jobs, qserve, ops, choices, props)


def bmc_params(K, nchoices=2, prefix=()):
    p = {}
    for i in range(1, K + 1):
        if i > len(prefix):
            p["o%d" % i] = int
        p["a%d" % i] = int
        p["b%d" % i] = int
        p["c%d" % i] = int
    for i in range(1, nchoices + 1):
        p["r%d" % i] = int
    return p


FIRST_OK = (qsim.ADD, qsim.PULL, qsim.TICK, qsim.DISCONNECT, qsim.RESTORE)


def bmc_cubes(fn, name, K, alphabet, depth, tmo, props, nchoices=2):
    """One cube per feasible sequence of the first `depth` operation kinds."""
    import itertools

    from vlib.runner import Cube

    cubes = []
    for pre in itertools.product(alphabet, repeat=min(depth, K)):
        if pre[0] not in FIRST_OK:
            continue  # from the empty queue every other kind has an unsatisfiable precondition
        if len(pre) > 1 and pre[0] in (qsim.TICK, qsim.DISCONNECT, qsim.RESTORE) and pre[1] not in FIRST_OK:
            continue  # the queue is still empty after these
        label = ",".join(qsim.OPNAMES[o] for o in pre)
        cubes.append(Cube(f"{name} k={K} [{label}]", fn, bmc_params(K, nchoices, pre),
                          {"K": K, "alphabet": tuple(alphabet), "props": tuple(props), "prefix": tuple(pre), "nchoices": nchoices},
                          timeout=tmo, per_path_timeout=30, group=name))
    return cubes


# ----------------------------------------------------------------------------- replay on the real modules


def replay_history(cand: dict, props) -> dict:
    """Re-run the concrete schedule on the unmodified qs modules (real logging code, real pickle) under the
    deterministic scheduler; then, when the schedule is a hand-off race, also under real gevent."""
    import pickle

    d = cand.get("concrete", {}).get("detail")
    if not isinstance(d, dict):
        d = cand.get("detail")
    args = cand["args"]
    prefix = list(args.get("prefix") or [])
    K = args["K"]
    ops = []
    for i in range(1, K + 1):
        o = prefix[i - 1] if i <= len(prefix) else args["o%d" % i]
        c = args["c%d" % i] if qsim.TICK in args["alphabet"] else 100
        ops.append((o, args["a%d" % i], args["b%d" % i], c))
    choices = [args["r%d" % i] for i in range(1, args.get("nchoices", 2) + 1)]
    import logging

    logging.disable(logging.CRITICAL)
    jobs, qserve = load_modules(strip_logging=False)
    assert not hasattr(jobs, "__verif_stripped_logging__")
    v = qsim.run_schedule(jobs, qserve, ops, choices, tuple(props), pickler=lambda db: pickle.loads(pickle.dumps(db, 2)))
    if v is None:
        return {"reproduced": False, "what": "schedule does not violate the property on the unmodified modules with real pickle"}
    out = {"reproduced": True, "signature": v["sig"], "what": f"{v['kind']} after history {v['history']}", "violation": v}
    try:
        out["gevent"] = gevent_replay(v["history"])
    except Exception as e:  # the real-gevent cross-check is additional evidence only
        out["gevent"] = {"ran": False, "why": f"{type(e).__name__}: {e}"}
    return out


def gevent_replay(history):
    """Re-run a history on the real gevent-based workq (real Event/AsyncResult, real greenlets) where expressible:
    add / pull / run (= gevent.sleep(0)) / disconnect (= kill) / finish / kill / drain."""
    import importlib

    import gevent

    import qs.jobs as J

    J = importlib.reload(J)  # undo the stubs of the scheduler replay
    import qs.qserve as Q

    Q = importlib.reload(Q)
    wq = J.workq()
    H = type("H", (Q.QPlugin,), {"workq": wq})
    handlers = {}
    pulls = {}
    got = {}
    accepted = []
    for step in history:
        kind = step[0]
        if kind == "add":
            accepted.append(H().rpc_qadd(channel=step[1], priority=step[2], timeout=step[3]))
        elif kind == "pull":
            w = step[1]
            h = handlers.setdefault(w, H())
            g = gevent.spawn(h.rpc_qpull, step[2])
            pulls[w] = g
            gevent.sleep(0)  # let it run until it returns or blocks
            if g.dead:
                got.setdefault(w, []).append(g.value["jobid"])
                del pulls[w]
        elif kind in ("run", "drain"):
            for _ in range(3):
                gevent.sleep(0)
            for w, g in list(pulls.items()):
                if g.dead:
                    if g.value is not None and not isinstance(g.value, BaseException):
                        got.setdefault(w, []).append(g.value["jobid"])
                    del pulls[w]
        elif kind == "disconnect":
            w = step[1]
            if w in pulls:
                pulls[w].kill()
                del pulls[w]
            if w in handlers:
                handlers[w].shutdown()
                del handlers[w]
            got.pop(w, None)
        elif kind == "finish":
            handlers[step[1]].rpc_qfinish(step[2], result=None if step[3] else {"r": step[2]}, error=step[3])
        elif kind == "kill":
            H().rpc_qkill([step[1]])
        else:
            return {"ran": False, "why": f"operation {kind} not expressible with wall-clock gevent"}
    # drain with a fresh worker
    fresh = H()
    drained = []
    for _ in range(len(accepted) + 1):
        g = gevent.spawn(fresh.rpc_qpull, [])
        gevent.sleep(0)
        gevent.sleep(0)
        if not g.dead:
            g.kill()
            break
        drained.append(g.value["jobid"])
    held = [j for js in got.values() for j in js]
    unfinished = [j for j in accepted if not wq.id2job[j].done]
    lost = [j for j in unfinished if j not in held and j not in drained]
    dup = [j for j in set(held + drained) if (held + drained).count(j) > 1]
    return {"ran": True, "accepted": accepted, "held_by_workers": got, "drained": drained, "lost": lost, "duplicated": dup}
