"""Shared by the queue checks C16 / C17 / C18: module loading, BMC harness, replay."""
import os
import sys

from vlib.stubs import qsim
from vlib.sym import assume

_mods = {}


def load_modules(strip_logging=True):
    """qs.jobs / qs.qserve from the current working tree (log statements stripped for the symbolic run)."""
    if "jobs" in _mods:
        return _mods["jobs"], _mods["qserve"]
    if strip_logging:
        from vlib.srcload import load_without_logging

        import qs.log  # noqa: F401
        import qs.rpcserver  # noqa: F401  (imported by qserve; not executed)

        jobs = load_without_logging("qs.jobs")
        qserve = load_without_logging("qs.qserve")
    else:
        import qs.jobs as jobs
        import qs.qserve as qserve
    for mod, attrs in ((jobs, ("event", "time", "random", "workq", "job")), (qserve, ("QPlugin", "db"))):
        for a in attrs:
            if not hasattr(mod, a):
                raise RuntimeError(f"stub target {mod.__name__}.{a} is gone")
    _mods["jobs"], _mods["qserve"] = jobs, qserve
    return jobs, qserve


def setup():
    load_modules(True)


def h_bmc(K: int, alphabet: tuple, props: tuple, prefix: tuple = (), nchoices: int = 2, restore_at: int = -1, **sym):
    """K operations with symbolic kind and arguments from the empty queue, then the conservation drain.
    `prefix` fixes the kinds of the first operations (sharding); everything else is symbolic."""
    jobs, qserve = load_modules()
    ops = []
    clock = qsim.TICK in alphabet
    for i in range(1, K + 1):
        if i <= len(prefix):
            o = prefix[i - 1]
        else:
            o = sym["o%d" % i]
            ok = False
            for x in alphabet:
                if o == x:
                    ok = True
                    break
            assume(ok)
        c = sym["c%d" % i]
        if not clock:
            c = 100  # no clock operation in this alphabet: deadlines are never observed, keep them concrete
        ops.append((o, sym["a%d" % i], sym["b%d" % i], c))
    if restore_at >= 0:
        ops.insert(restore_at, (qsim.RESTORE, 0, 0, 0))  # the server is stopped and restarted at this position
    choices = [sym["r%d" % i] for i in range(1, nchoices + 1)]
    return qsim.run_schedule(jobs, qserve, ops, choices, props)


def bmc_params(K, nchoices=2, prefix=()):
    p = {}
    for i in range(1, K + 1):
        if i > len(prefix):
            p["o%d" % i] = int
        p["a%d" % i] = int
        p["b%d" % i] = int
        p["c%d" % i] = int
    for i in range(1, nchoices + 1):
        p["r%d" % i] = int
    return p


FIRST_OK = (qsim.ADD, qsim.PULL, qsim.TICK, qsim.DISCONNECT, qsim.RESTORE)


def bmc_cubes(fn, name, K, alphabet, depth, tmo, props, nchoices=2):
    """One cube per feasible sequence of the first `depth` operation kinds."""
    import itertools

    from vlib.runner import Cube

    cubes = []
    for pre in itertools.product(alphabet, repeat=min(depth, K)):
        if pre[0] not in FIRST_OK:
            continue  # from the empty queue every other kind has an unsatisfiable precondition
        if len(pre) > 1 and pre[0] in (qsim.TICK, qsim.DISCONNECT, qsim.RESTORE) and pre[1] not in FIRST_OK:
            continue  # the queue is still empty after these
        label = ",".join(qsim.OPNAMES[o] for o in pre)
        cubes.append(Cube(f"{name} k={K} [{label}]", fn, bmc_params(K, nchoices, pre),
                          {"K": K, "alphabet": tuple(alphabet), "props": tuple(props), "prefix": tuple(pre), "nchoices": nchoices},
                          timeout=tmo, per_path_timeout=30, group=name, allow_empty=True))
    return cubes


# ----------------------------------------------------------------------------- mode 2: normal-form prefix + symbolic suffix

STAGES = ["queued", "pending", "pulled", "finished-ok", "finished-error", "killed-queued", "killed-pulled",
          "timedout-queued", "timedout-pulled", "timedout-pending", "dropped"]
SHORT, LONG = 5, 1000


def nf_prefix_ops(stages, sym):
    """Canonical history of real API calls that puts job j into stages[j]; arguments stay symbolic.
    Returns the list of (op, a, b, c).  Blocked pullers are created first (the queue is empty then), pulled jobs are
    added and pulled one at a time (so the pull can only return that job), queued jobs are added last; one clock
    step of 10 at the end lets the short-timeout jobs expire."""
    ops = []
    J = len(stages)
    wk = 0
    pend = [j for j in range(J) if STAGES[stages[j]] in ("pending", "timedout-pending")]
    pulled = [j for j in range(J) if STAGES[stages[j]] in ("pulled", "finished-ok", "finished-error", "killed-pulled", "timedout-pulled", "dropped")]
    queued = [j for j in range(J) if STAGES[stages[j]] in ("queued", "killed-queued", "timedout-queued")]
    jid = 0
    ids = {}
    for j in pend:
        ch = sym["ch%d" % j]
        ops.append((qsim.PULL, wk, 3, 0))  # any channel, blocks
        tmo = SHORT if STAGES[stages[j]].startswith("timedout") else LONG
        ops.append((qsim.ADD, ch, sym["pr%d" % j], tmo))
        jid += 1
        ids[j] = jid
        wk += 1
    first_free = wk
    for j in pulled:
        st = STAGES[stages[j]]
        ch = sym["ch%d" % j]
        tmo = SHORT if st.startswith("timedout") else LONG
        ops.append((qsim.ADD, ch, sym["pr%d" % j], tmo))
        jid += 1
        ids[j] = jid
        w = first_free + sym["wk%d" % j]
        ops.append((qsim.PULL, w, 3, 0))
        if st == "finished-ok":
            ops.append((qsim.FINISH_ID, w, ids[j], 0))
        elif st in ("finished-error", "dropped"):
            ops.append((qsim.FINISH_ID, w, ids[j], 1))  # error => time-to-live of 10
        elif st == "killed-pulled":
            ops.append((qsim.KILL, ids[j] - 1, 0, 0))
    for j in queued:
        st = STAGES[stages[j]]
        tmo = SHORT if st.startswith("timedout") else LONG
        ops.append((qsim.ADD, sym["ch%d" % j], sym["pr%d" % j], tmo))
        jid += 1
        ids[j] = jid
        if st == "killed-queued":
            ops.append((qsim.KILL, ids[j] - 1, 0, 0))
    if any(STAGES[x] == "dropped" for x in stages):
        # watchdog gives finished jobs their drop deadline, the clock passes it, the next watchdog run drops them
        ops.append((qsim.WATCHDOG, 0, 0, 0))
        ops.append((qsim.TICK, 0, 0, 30))
        ops.append((qsim.WATCHDOG, 0, 0, 0))
    elif any(STAGES[x].startswith("timedout") for x in stages):
        ops.append((qsim.TICK, 0, 0, 10))
    return ops


def h_nf(stages: tuple, S: int, alphabet: tuple, props: tuple, nchoices: int = 2, restore_at: int = -1, **sym):
    """Jobs brought into symbolic-argument normal-form stages by real API calls, then S fully symbolic operations, then the drain."""
    jobs, qserve = load_modules()
    J = len(stages)
    npend = 0
    for x in stages:
        if STAGES[x] in ("pending", "timedout-pending"):
            npend += 1
    for j in range(J):
        assume(0 <= sym["wk%d" % j] < 3 - npend)
    ops = nf_prefix_ops(stages, sym)
    for i in range(1, S + 1):
        if restore_at == i - 1:
            ops.append((qsim.RESTORE, 0, 0, 0))
        o = sym["o%d" % i]
        ok = False
        for x in alphabet:
            if o == x:
                ok = True
                break
        assume(ok)
        ops.append((o, sym["a%d" % i], sym["b%d" % i], sym["c%d" % i]))
    if restore_at == S:
        ops.append((qsim.RESTORE, 0, 0, 0))
    choices = [sym["r%d" % i] for i in range(1, nchoices + 1)]
    return qsim.run_schedule(jobs, qserve, ops, choices, props)


def nf_params(J, S, nchoices=2):
    p = {}
    for j in range(J):
        p["ch%d" % j] = int
        p["pr%d" % j] = int
        p["wk%d" % j] = int
    for i in range(1, S + 1):
        for x in "oabc":
            p["%s%d" % (x, i)] = int
    for i in range(1, nchoices + 1):
        p["r%d" % i] = int
    return p


def nf_cubes(fn, name, J, S, alphabet, tmo, props, stage_set=None, nchoices=2):
    import itertools

    from vlib.runner import Cube

    cubes = []
    stage_ids = list(range(len(STAGES))) if stage_set is None else [STAGES.index(x) for x in stage_set]
    for st in itertools.product(stage_ids, repeat=J):
        npend = sum(1 for x in st if STAGES[x] in ("pending", "timedout-pending"))
        if npend > 2:
            continue  # at most two of the three workers are parked as blocked pullers
        # jobs are interchangeable: keep one representative per multiset of stages
        if list(st) != sorted(st):
            continue
        label = "+".join(STAGES[x] for x in st)
        cubes.append(Cube(f"{name} [{label}] +{S} ops", fn, nf_params(J, S, nchoices),
                          {"stages": tuple(st), "S": S, "alphabet": tuple(alphabet), "props": tuple(props), "nchoices": nchoices},
                          timeout=tmo, per_path_timeout=30, group=name, allow_empty=True))
    return cubes


# ----------------------------------------------------------------------------- replay on the real modules


def replay_history(cand: dict, props) -> dict:
    """Re-run the concrete schedule on the unmodified qs modules (real logging code, real pickle) under the
    deterministic scheduler; then, when the schedule is a hand-off race, also under real gevent."""
    import pickle

    d = cand.get("concrete", {}).get("detail")
    if not isinstance(d, dict):
        d = cand.get("detail")
    args = cand["args"]
    ra = args.get("restore_at", -1)
    if "stages" in args:
        ops = nf_prefix_ops(tuple(args["stages"]), args)
        for i in range(1, args["S"] + 1):
            if ra == i - 1:
                ops.append((qsim.RESTORE, 0, 0, 0))
            ops.append((args["o%d" % i], args["a%d" % i], args["b%d" % i], args["c%d" % i]))
        if ra == args["S"]:
            ops.append((qsim.RESTORE, 0, 0, 0))
    else:
        prefix = list(args.get("prefix") or [])
        K = args["K"]
        ops = []
        for i in range(1, K + 1):
            o = prefix[i - 1] if i <= len(prefix) else args["o%d" % i]
            c = args["c%d" % i] if qsim.TICK in args["alphabet"] else 100
            ops.append((o, args["a%d" % i], args["b%d" % i], c))
        if ra >= 0:
            ops.insert(ra, (qsim.RESTORE, 0, 0, 0))
    choices = [args["r%d" % i] for i in range(1, args.get("nchoices", 2) + 1)]
    import logging

    logging.disable(logging.CRITICAL)
    jobs, qserve = load_modules(strip_logging=False)
    assert not hasattr(jobs, "__verif_stripped_logging__")
    v = qsim.run_schedule(jobs, qserve, ops, choices, tuple(props), pickler=lambda db: pickle.loads(pickle.dumps(db, 2)))
    if v is None:
        return {"reproduced": False, "what": "schedule does not violate the property on the unmodified modules with real pickle"}
    out = {"reproduced": True, "signature": v["sig"], "what": f"{v['kind']} after history {v['history']}", "violation": v}
    try:
        out["gevent"] = gevent_replay(v["history"])
    except Exception as e:  # the real-gevent cross-check is additional evidence only
        out["gevent"] = {"ran": False, "why": f"{type(e).__name__}: {e}"}
    return out


def gevent_replay(history):
    """Re-run a history on the real gevent-based workq (real Event/AsyncResult, real greenlets) where expressible:
    add / pull / run (= gevent.sleep(0)) / disconnect (= kill) / finish / kill / drain."""
    import importlib

    import gevent

    import qs.jobs as J

    J = importlib.reload(J)  # undo the stubs of the scheduler replay
    import qs.qserve as Q

    Q = importlib.reload(Q)
    wq = J.workq()
    H = type("H", (Q.QPlugin,), {"workq": wq})
    handlers = {}
    pulls = {}
    got = {}
    accepted = []
    killed_early = set()
    for pos, step in enumerate(history):
        kind = step[0]
        if kind == "add":
            # a later disconnect of a worker that is blocked now, with no event-loop run in between, is the schedule
            # "the connection drops (kill scheduled), and in the same loop iteration a job arrives": the kill is queued
            # before the push and takes effect at the blocking point afterwards
            for later in history[pos + 1:]:
                if later[0] in ("run", "drain", "pull", "tick"):
                    break
                if later[0] == "disconnect" and later[1] in pulls and later[1] not in killed_early:
                    pulls[later[1]].kill(block=False)
                    killed_early.add(later[1])
            accepted.append(H().rpc_qadd(channel=step[1], priority=step[2], timeout=step[3]))
        elif kind == "pull":
            w = step[1]
            h = handlers.setdefault(w, H())
            g = gevent.spawn(h.rpc_qpull, step[2])
            pulls[w] = g
            gevent.sleep(0)  # let it run until it returns or blocks
            if g.dead:
                got.setdefault(w, []).append(g.value["jobid"])
                del pulls[w]
        elif kind in ("run", "drain"):
            for _ in range(3):
                gevent.sleep(0)
            for w, g in list(pulls.items()):
                if g.dead:
                    if g.value is not None and not isinstance(g.value, BaseException):
                        got.setdefault(w, []).append(g.value["jobid"])
                    del pulls[w]
        elif kind == "disconnect":
            w = step[1]
            if w in pulls:
                if w in killed_early:
                    gevent.sleep(0)
                    gevent.sleep(0)
                else:
                    pulls[w].kill()
                del pulls[w]
            if w in handlers:
                handlers[w].shutdown()
                del handlers[w]
            got.pop(w, None)
        elif kind == "finish":
            handlers[step[1]].rpc_qfinish(step[2], result=None if step[3] else {"r": step[2]}, error=step[3])
        elif kind == "kill":
            H().rpc_qkill([step[1]])
        else:
            return {"ran": False, "why": f"operation {kind} not expressible with wall-clock gevent"}
    # drain with a fresh worker
    fresh = H()
    drained = []
    for _ in range(len(accepted) + 1):
        g = gevent.spawn(fresh.rpc_qpull, [])
        gevent.sleep(0)
        gevent.sleep(0)
        if not g.dead:
            g.kill()
            break
        drained.append(g.value["jobid"])
    held = [j for js in got.values() for j in js]
    unfinished = [j for j in accepted if not wq.id2job[j].done]
    lost = [j for j in unfinished if j not in held and j not in drained]
    dup = [j for j in set(held + drained) if (held + drained).count(j) > 1]
    return {"ran": True, "accepted": accepted, "held_by_workers": got, "drained": drained, "lost": lost, "duplicated": dup}


def with_restore(cubes, positions):
    """Clone cubes, inserting the stop/restart step at each of the given positions of the symbolic part."""
    from vlib.runner import Cube

    out = []
    for c in cubes:
        for p in positions:
            f = dict(c.fixed)
            f["restore_at"] = p
            out.append(Cube(c.name + f" restart@{p}", c.fn, c.params, f, timeout=c.timeout,
                            per_path_timeout=c.per_path_timeout, group=c.group, allow_empty=True))
    return out
