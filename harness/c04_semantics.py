"""C04 — template expansion computes what the template language says: integer #expr against a reference evaluator.

An expression TREE with symbolic operators and symbolic integer literals is serialised (minimal or redundant
parentheses, by the documented precedence and left association) into the token list the tokenizer would produce,
the real Expr.parse_expr (shunting-yard, unary detection, precedence table, operator functions) evaluates it, and
the value is compared with the tree's value computed by a short reference evaluator written here.
"""
from vlib import pyxload

pyxload.install()

from vlib.runner import CheckSpec, Cube  # noqa: E402
from vlib.sym import assume, choose  # noqa: E402

# documented precedence (MediaWiki Help:Calculation): higher binds tighter; binary operators associate to the left
BIN = [("+", 6), ("-", 6), ("*", 8), ("mod", 8), ("=", 4), ("!=", 4), ("<", 4), (">", 4), ("<=", 4), (">=", 4), ("and", 3), ("or", 2)]
UN = [("not", 9), ("abs", 9), ("neg", 10)]
OPS = [b[0] for b in BIN] + [u[0] for u in UN] + ["leaf"]
PREC = dict(BIN + UN)
PREC["leaf"] = 100


def ref_apply(op, a, b=None):
    if op == "+":
        return a + b
    if op == "-":
        return a - b
    if op == "*":
        return a * b
    if op == "mod":
        return a % b
    if op == "=":
        return 1 if a == b else 0
    if op == "!=":
        return 1 if a != b else 0
    if op == "<":
        return 1 if a < b else 0
    if op == ">":
        return 1 if a > b else 0
    if op == "<=":
        return 1 if a <= b else 0
    if op == ">=":
        return 1 if a >= b else 0
    if op == "and":
        return 1 if (a != 0 and b != 0) else 0
    if op == "or":
        return 1 if (a != 0 or b != 0) else 0
    if op == "not":
        return 1 if a == 0 else 0
    if op == "abs":
        return a if a >= 0 else -a
    if op == "neg":
        return -a
    raise ValueError(op)


class T:
    """expression tree node"""

    def __init__(self, op, left=None, right=None, value=None):
        self.op, self.left, self.right, self.value = op, left, right, value


def mktree(slots, leaves, pos, depth, li):
    """heap-ordered full binary tree of operator slots; li = [next leaf index]"""
    op = OPS[slots[pos]] if depth > 0 else "leaf"
    if op == "leaf":
        v = leaves[li[0]]
        li[0] += 1
        return T("leaf", value=v)
    left = mktree(slots, leaves, 2 * pos + 1, depth - 1, li)
    if op in PREC and op in [u[0] for u in UN]:
        return T(op, left)
    right = mktree(slots, leaves, 2 * pos + 2, depth - 1, li)
    return T(op, left, right)


def ref_eval(t):
    if t.op == "leaf":
        return t.value
    a = ref_eval(t.left)
    if t.right is None:
        return ref_apply(t.op, a)
    b = ref_eval(t.right)
    if t.op == "mod":
        assume(a >= 0 and b > 0)  # the property restricts mod to non-negative operands; a zero divisor is an error, not a value
    return ref_apply(t.op, a, b)


def tokens(t, redundant, out, parent_prec=0, right_side=False, text=None):
    """serialise by the documented precedence / left association; numbers are non-negative literals (a negative value is a neg node)"""
    if t.op == "leaf":
        s = str(t.value)
        out.append((s, ""))
        text.append(s)
        return
    p = PREC[t.op]
    need = redundant or p < parent_prec or (p == parent_prec and right_side)
    if need:
        out.append(("", "("))
        text.append("(")
    if t.right is None:
        out.append(("", "-" if t.op == "neg" else t.op))
        text.append("-" if t.op == "neg" else t.op + " ")
        # the operand of a unary operator is parenthesised unless it is a literal or another unary operator
        tokens(t.left, redundant, out, p + 1 if t.left.right is not None else 0, False, text)
    else:
        tokens(t.left, redundant, out, p, False, text)
        out.append(("", t.op))
        text.append(" " + t.op + " ")
        tokens(t.right, redundant, out, p, True, text)
    if need:
        out.append(("", ")"))
        text.append(")")


def h_expr(o0: int, o1: int, o2: int, o3: int, o4: int, o5: int, o6: int,
           v0: int, v1: int, v2: int, v3: int, v4: int, v5: int, v6: int, v7: int,
           redundant: bool, depth: int, root: int):
    from mwlib.parser import expr as X

    n = len(OPS)
    leaves = [v0, v1, v2, v3, v4, v5, v6, v7]
    for v in leaves:  # first, so that the discarded branches sit at the top of the path tree and are visited once, not once per operator choice
        assume(0 <= v < 10)  # single-digit literals: rendering a numeral forks once per digit count; larger values arise from the operators
    slots = [root] + [choose(o, n) for o in (o1, o2)] + ([choose(o, n) for o in (o3, o4, o5, o6)] if depth >= 3 else [n - 1] * 4)
    tree = mktree(slots, leaves, 0, depth, [0])
    want = ref_eval(tree)
    toks, text = [], []
    tokens(tree, redundant, toks, 0, False, text)
    saved = X.tokenize
    X._cache.clear()
    X.tokenize = lambda s: list(toks)
    try:
        try:
            got = X.Expr().parse_expr("x")
        except Exception as e:
            return {"sig": "expr|" + type(e).__name__, "expression": "".join(text), "expected": want, "detail": str(e)[:120]}
    finally:
        X.tokenize = saved
        X._cache.clear()
    if got != want:
        return {"sig": "expr|wrong-value|root=" + OPS[root], "expression": "".join(text), "expected": want, "got": got}
    return None


def ref_chain(vals, ops):
    """reference for a flat chain  v0 op1 v1 op2 v2 ...  : repeatedly reduce the leftmost operator of the highest documented
    precedence (left association) - written independently of both the tree evaluator above and mwlib's shunting-yard"""
    vals, ops = list(vals), list(ops)
    while ops:
        best = 0
        for i in range(1, len(ops)):
            if PREC[ops[i]] > PREC[ops[best]]:
                best = i
        a, b = vals[best], vals[best + 1]
        if ops[best] == "mod":
            assume(a >= 0 and b > 0)
        vals[best:best + 2] = [ref_apply(ops[best], a, b)]
        del ops[best]
    return vals[0]


def h_chain(o1: int, o2: int, o3: int, v0: int, v1: int, v2: int, v3: int, u: int, n: int):
    """v0 op1 [unary] v1 op2 v2 op3 v3 without parentheses: precedence and left association decide the grouping"""
    from mwlib.parser import expr as X

    nb = len(BIN)
    ops = [BIN[choose(o, nb)][0] for o in (o1, o2, o3)][:n]
    vals = [v0, v1, v2, v3][:n + 1]
    for v in vals:
        assume(0 <= v < 10)
    un = [None, "neg", "abs", "not"][choose(u, 4)]
    rvals = list(vals)
    if un:
        rvals[1] = ref_apply(un, vals[1])
    want = ref_chain(rvals, ops)
    toks, text = [(str(vals[0]), "")], [str(vals[0])]
    for i, op in enumerate(ops):
        toks.append(("", op))
        text.append(" " + op + " ")
        if i == 0 and un:
            toks.append(("", "-" if un == "neg" else un))
            text.append("-" if un == "neg" else un + " ")
        toks.append((str(vals[i + 1]), ""))
        text.append(str(vals[i + 1]))
    saved = X.tokenize
    X._cache.clear()
    X.tokenize = lambda s_: list(toks)
    try:
        try:
            got = X.Expr().parse_expr("x")
        except Exception as e:
            return {"sig": "expr|" + type(e).__name__, "expression": "".join(text), "expected": want, "detail": str(e)[:120]}
    finally:
        X.tokenize = saved
        X._cache.clear()
    if got != want:
        return {"sig": "expr|wrong-value|chain", "expression": "".join(text), "expected": want, "got": got}
    return None


def h_format(v: int, neg: bool):
    """#expr renders an integer value as its decimal integer"""
    from mwlib.parser import expr as X
    from mwlib.parser.templ import magics

    assume(0 <= v < 1000)
    s = str(v)
    toks = ([("", "-")] if neg else []) + [(s, "")]
    saved = X.tokenize
    X._cache.clear()
    X.tokenize = lambda t: list(toks)
    try:
        r = magics.MagicResolver.__dict__  # noqa: F841
        pf = magics.ParserFunctions()
        out = getattr(pf, "#EXPR")([("-" if neg else "") + s])
    finally:
        X.tokenize = saved
        X._cache.clear()
    want = ("-" if neg and v != 0 else "") + s
    if out != want:
        return {"sig": "expr|format", "expression": ("-" if neg else "") + s, "expected": want, "got": out}
    return None


def twin_prec(v0: int, v1: int, v2: int):
    """Reachability: precedence matters for some values (2+3*4 style): the oracle can tell the groupings apart."""
    assume(0 <= v0 < 50 and 0 <= v1 < 50 and 0 <= v2 < 50)
    t = T("+", T("leaf", value=v0), T("*", T("leaf", value=v1), T("leaf", value=v2)))
    other = T("*", T("+", T("leaf", value=v0), T("leaf", value=v1)), T("leaf", value=v2))
    if ref_eval(t) != ref_eval(other):
        return {"reached": [v0, v1, v2]}
    return None


def build_spec(tier):
    import mwlib.core.metabook  # noqa
    from mwlib.parser import expr as X
    from mwlib.parser.templ import magics

    q = tier == "quick"
    depth = 2 if q else 3
    tmo = 60 if q else 1200
    params = {f"o{i}": int for i in range(7)}
    params.update({f"v{i}": int for i in range(8)})
    params["redundant"] = bool
    del params["o0"]
    cubes = []
    del params["o1"]
    for root in range(len(OPS) - 1):
        for left in range(len(OPS)):
            cubes.append(Cube(f"expr depth {depth} root={OPS[root]} left={OPS[left]}", h_expr_noroot, params, {"depth": depth, "root": root, "o1": left},
                              timeout=tmo, per_path_timeout=20, group="expr:" + OPS[root]))
    cp = {"o2": int, "o3": int, "v0": int, "v1": int, "v2": int, "v3": int, "u": int}
    for o1 in range(len(BIN)):
        cubes.append(Cube(f"chain v0 {BIN[o1][0]} [unary] v1 op v2 op v3", h_chain, cp, {"o1": o1, "n": 3}, timeout=tmo * 2, per_path_timeout=20, group="chain"))
    cubes.append(Cube("format of integer results", h_format, {"v": int, "neg": bool}, {}, timeout=120, group="format"))
    cubes.append(Cube("twin: precedence distinguishes groupings", twin_prec, {"v0": int, "v1": int, "v2": int}, {}, timeout=60, role="twin"))
    return CheckSpec(
        property_id="C04",
        level="other",
        cubes=cubes,
        functions=[X.Expr.parse_expr, X.Expr._process_expression_elements, X.Expr._convert_to_unary_operator, X.Expr._handle_closing_parenthesis, X.addop,
                   (X.__file__, "expr.py operator table (precedence, functions, unary_ops)"), getattr(magics.ParserFunctions, "#EXPR")],
        bounds={"expression trees": f"full binary trees of depth <= {depth}, every slot one of {OPS}", "literals": "symbolic integers 0 <= v < 10 (larger and negative values arise through the operators)",
                "flat chains": "v0 op1 [neg|abs|not] v1 op2 v2 op3 v3 without parentheses, all three binary operators symbolic",
                "parentheses": "minimal (by documented precedence / left association) or around every sub-expression (symbolic bool)", "mod": "non-negative dividend, positive divisor"},
        stubs=["expr.tokenize (regex over the text) replaced by the token list of the serialised tree; expr._cache cleared per path"],
        assumptions=["reference evaluator and serialiser in harness/c04_semantics.py implement the documented precedence table and left association (MediaWiki Help:Calculation)",
                     "only integer-valued operators; floats (/, div, ^, round, floor, ceil, trunc, trigonometry, decimal literals) are outside because CrossHair models floats as reals"],
        outside=["binding / trimming / #if / #ifeq / #switch semantics on template programs (wikitext -> node tree parsing is regex driven; not built in this revision)",
                 "the tokenizer regex, float arithmetic, result formatting of non-integers"],
        explanation="bounded symbolic differential checking: operator choice per tree slot, the integer literals and the parenthesisation are z3 variables; the real shunting-yard evaluator "
        "must agree with a reference evaluator on every path; counterexamples are rendered to text and replayed through '{{#expr: ...}}' in the real Expander",
        replay=replay,
    )


def h_expr_noroot(**kw):
    kw.setdefault("o0", 0)
    for i in range(3, 7):
        kw.setdefault(f"o{i}", 0)
    return h_expr(**kw)


def build(tier: str) -> CheckSpec:
    return build_spec(tier)


def replay(cand: dict) -> dict:
    d = cand.get("concrete", {}).get("detail")
    if not isinstance(d, dict):
        return {"reproduced": False, "error": "no concrete detail"}
    import mwlib.core.metabook  # noqa
    from mwlib.parser.expander import Expander
    from mwlib.parser.templ.misc import DictDB

    text = d["expression"]
    out = Expander("{{#expr: " + text + "}}", pagename="P", wikidb=DictDB()).expandTemplates()
    want = str(d["expected"])
    if out.strip() != want:
        return {"reproduced": True, "signature": "C04|" + d["sig"].split("|root")[0], "what": f"{{{{#expr: {text}}}}} expands to {out!r}, the template language says {want}"}
    return {"reproduced": False, "what": f"{{{{#expr: {text}}}}} = {out!r} as expected"}
