"""C20 — output files appear atomically: a crash or an I/O error never leaves a partial file under the final name.

The producers' own code runs (Status.dump, ZipCreator.create_zip, make_zip, download_with_retries, the output
section of render.main) against a model file system injected into their module namespaces.  Symbolic: the step at
which the process is killed, how much of the data being flushed at that moment reached the file, the step at which
an I/O error is injected and its errno, the number of chunks, whether a previous version exists.
"""
import errno
import os

from vlib.runner import CheckSpec, Cube
from vlib.stubs import modelfs
from vlib.sym import assume, pinned

PRODUCERS = ["status", "create_zip", "make_zip", "download", "render"]
ERRNOS = [errno.ENOSPC, errno.EIO]
PREV = {"status": '{"old": true}', "create_zip": b"OLDZIP", "make_zip": b"OLDZIP", "download": b"OLDIMG", "render": b"OLDPDF"}
FINAL = {"status": "/out/status.json", "create_zip": "/out/c.zip", "make_zip": "/out/c.zip", "download": "/out/img.png", "render": "/out/book.pdf"}


class _Null:
    def __getattr__(self, n):
        return lambda *a, **k: None


class OsShim:
    def __init__(self, fs, nfiles=0):
        self.fs = fs
        self.nfiles = nfiles
        self.path = PathShim(fs)

    def rename(self, a, b):
        return self.fs.rename(a, b)

    def replace(self, a, b):
        return self.fs.replace(a, b)

    def unlink(self, p):
        return self.fs.unlink(p)

    remove = unlink

    def close(self, fd):
        return None

    def fsync(self, fd):
        return self.fs.fsync(fd)

    fdatasync = fsync

    def walk(self, top):
        yield top, [], ["f%d" % i for i in range(self.nfiles)]

    def fdopen(self, fd, mode="r"):
        raise OSError("fdopen not modelled")

    def __getattr__(self, name):
        return getattr(os, name)


class PathShim:
    def __init__(self, fs):
        self.fs = fs

    def exists(self, p):
        return self.fs.exists(p)

    def __getattr__(self, name):
        return getattr(os.path, name)


class TempfileShim:
    def __init__(self, fs):
        self.fs = fs
        self.tempdir = "/tmp"

    def mkstemp(self, suffix="", prefix="tmp", dir=None, text=False):
        return self.fs.mkstemp(suffix=suffix, prefix=prefix, dir=dir)

    def mkdtemp(self, suffix="", prefix="tmp", dir=None):
        return (dir or "/tmp") + "/tmpdir"


class ZipfileShim:
    ZIP_DEFLATED = 8
    ZIP_STORED = 0
    ZipFile = modelfs.ModelZipFile


class ShutilShim:
    def rmtree(self, *a, **k):
        return None


def _patch(mod, **attrs):
    saved = {}
    for k, v in attrs.items():
        saved[k] = mod.__dict__.get(k, _MISSING)
        setattr(mod, k, v)
    return saved


_MISSING = object()


def _unpatch(mod, saved):
    for k, v in saved.items():
        if v is _MISSING:
            delattr(mod, k)
        else:
            setattr(mod, k, v)


def _need(mod, *names):
    for n in names:
        if not hasattr(mod, n):
            raise RuntimeError(f"stub target {mod.__name__}.{n} is gone")


# ---------------------------------------------------------------------------- the producers (real code)


def run_producer(which, fs, m):
    """Returns the complete new content the producer is meant to publish."""
    import mwlib.core.metabook  # noqa: F401

    modelfs.ModelZipFile.fs = fs
    if which == "status":
        from mwlib.utils import status as S

        _need(S, "Status", "os")
        saved = _patch(S, open=fs.open, os=OsShim(fs), log=_Null())
        try:
            st = S.Status(filename=FINAL[which], status={"status": "rendering", "progress": m})
            st.stdout = None
            new = S.json.dumps(st.status)
            EXPECT[0] = new
            st.dump()
        finally:
            _unpatch(S, saved)
        return new
    if which in ("create_zip", "make_zip"):
        from mwlib.apps import buildzip as B
        from mwlib.utils import unorganized as U

        _need(B, "ZipCreator", "make_zip", "zip_dir", "tempfile", "os", "zipfile")
        new = modelfs.complete_zip(m)
        EXPECT[0] = new
        saved = _patch(B, os=OsShim(fs, m), tempfile=TempfileShim(fs), zipfile=ZipfileShim, shutil=ShutilShim(), log=_Null(),
                       make_nuwiki=lambda **kw: None, linuxmem=_Null())
        saved_u = _patch(U, os=OsShim(fs), log=_Null())
        try:
            if which == "create_zip":
                B.ZipCreator.create_zip("/src", FINAL[which])
            else:
                B.make_zip(output=FINAL[which], wiki_options={}, metabook=None, pod_client=None, status=None)
        finally:
            _unpatch(B, saved)
            _unpatch(U, saved_u)
        return new
    if which == "download":
        from mwlib.network import transport as T

        _need(T, "download_with_retries", "stream_download_to_temp", "os")
        chunks = [b"<chunk %d>" % i for i in range(m)]
        new = b"".join(chunks)
        EXPECT[0] = new

        class Resp:
            def raise_for_status(self):
                pass

            def iter_bytes(self, chunk_size=None):
                return iter(chunks)

            def __enter__(self):
                return self

            def __exit__(self, *a):
                return False

        class Client:
            def stream(self, method, url):
                return Resp()

        class HTTPStatusError(Exception):
            pass

        saved = _patch(T, open=fs.open, os=OsShim(fs))
        try:
            T.download_with_retries(client=Client(), url="http://x/img.png", path=FINAL[which], temp_path=FINAL[which] + ".tmp",
                                    retry_policy=T.build_download_retry_policy(1, 1, 2), http_status_error_cls=HTTPStatusError,
                                    sleep_fn=lambda d: None, logger=_Null())
        finally:
            _unpatch(T, saved)
        return new
    if which == "render":
        from mwlib.apps import render as R

        _need(R, "main", "get_writer_from_options", "get_environment", "finish_render", "tempfile", "os")
        chunks = [b"%%PDF chunk %d " % i for i in range(m)]
        new = b"".join(chunks)
        EXPECT[0] = new

        def writer(env, output=None, status_callback=None, **kw):
            with fs.open(output, "wb") as f:
                for c in chunks:
                    f.write(c)

        class Env:
            images = None

            class wiki:
                siteinfo = {"general": {"lang": "en"}}

        class St:
            def __init__(self, *a, **k):
                pass

            def __call__(self, **kw):
                pass

        saved = _patch(R, os=OsShim(fs), tempfile=TempfileShim(fs), get_writer_from_options=lambda o: (writer, {}),
                       init_tmp_cleaner=lambda: None, Status=St, get_environment=lambda o: (Env(), St(), None),
                       finish_render=lambda *a: None, write_traceback=lambda *a: None, _locale=_Null(), logger=_Null())
        try:
            params = {p.name: None for p in R.main.params}
            params.update(output=FINAL[which], writer="x", args=())
            R.main.callback(**params)
        finally:
            _unpatch(R, saved)
        return new
    raise ValueError(which)


EXPECT = [None]


def judge(which, fs, prev_exists, new, mode):
    final = fs.files.get(FINAL[which])
    ok = final is None or (prev_exists and final == PREV[which]) or (new is not None and final == new)
    if not ok:
        return {"sig": f"{which}|partial-file-under-final-name|{mode}", "producer": which, "mode": mode,
                "final_content": repr(final)[:80], "steps": [list(x) for x in fs.log]}
    return None


def h_crash(k: int, partial: int, m: int, prev_exists: bool, which: str, maxm: int = 3):
    """The producer is killed before its k-th file-system step."""
    assume(1 <= m <= maxm)
    m = pinned(m)  # the chunk count ends up in json.dumps / b"%d" formatting (C code)
    assume(1 <= k <= 40)
    assume(0 <= partial <= 40)
    fs = modelfs.ModelFS(crash_at=k, partial=partial)
    if prev_exists:
        fs.files[FINAL[which]] = PREV[which]
    EXPECT[0] = None
    try:
        run_producer(which, fs, m)
    except modelfs.ProcessKilled:
        pass
    except Exception:
        pass
    assume(fs.crashed)  # k beyond the producer's last step: nothing to check on this path
    return judge(which, fs, prev_exists, EXPECT[0], "crash")


def h_fault(f: int, e: int, m: int, prev_exists: bool, which: str, maxm: int = 3):
    """The f-th file-system step fails with ENOSPC / EIO; the producer's own error handling runs."""
    assume(1 <= m <= maxm)
    m = pinned(m)
    assume(1 <= f <= 40)
    assume(0 <= e < len(ERRNOS))
    fs = modelfs.ModelFS(fault_at=f, fault_errno=ERRNOS[e])
    if prev_exists:
        fs.files[FINAL[which]] = PREV[which]
    EXPECT[0] = None
    try:
        run_producer(which, fs, m)
    except Exception:
        pass
    assume(fs.faulted)
    return judge(which, fs, prev_exists, EXPECT[0], "io-error")


def h_fault_then_crash(f: int, k: int, partial: int, m: int, which: str, maxm: int = 2):
    """An I/O error at step f, then the process is killed at a later step k (during the producer's clean-up)."""
    assume(1 <= m <= maxm)
    m = pinned(m)
    assume(1 <= f < k <= 40)
    assume(0 <= partial <= 40)
    fs = modelfs.ModelFS(crash_at=k, partial=partial, fault_at=f)
    fs.files[FINAL[which]] = PREV[which]
    EXPECT[0] = None
    try:
        run_producer(which, fs, m)
    except modelfs.ProcessKilled:
        pass
    except Exception:
        pass
    assume(fs.faulted and fs.crashed)
    return judge(which, fs, True, EXPECT[0], "io-error+crash")


def twin_complete(m: int, which: str):
    """Reachability: without crash or fault the producer does publish the complete new content."""
    assume(1 <= m <= 3)
    m = pinned(m)
    fs = modelfs.ModelFS()
    new = run_producer(which, fs, m)
    if fs.files.get(FINAL[which]) == new and fs.step_no >= 3:
        return {"reached": which, "steps": fs.step_no}
    return None


def build(tier: str) -> CheckSpec:
    import mwlib.core.metabook  # noqa
    from mwlib.apps import buildzip, render
    from mwlib.network import transport
    from mwlib.utils import status

    cubes = []
    tmo = 200 if tier == "quick" else 900
    maxm = 3 if tier == "quick" else 6
    for w in PRODUCERS:
        cubes.append(Cube(f"crash[{w}]", h_crash, {"k": int, "partial": int, "m": int, "prev_exists": bool}, {"which": w, "maxm": maxm}, timeout=tmo, group=w))
        cubes.append(Cube(f"io-error[{w}]", h_fault, {"f": int, "e": int, "m": int, "prev_exists": bool}, {"which": w, "maxm": maxm}, timeout=tmo, group=w))
        if tier != "quick":
            # a producer without clean-up steps after a failed call has no later step to be killed at: may be empty
            cubes.append(Cube(f"io-error+crash[{w}]", h_fault_then_crash, {"f": int, "k": int, "partial": int, "m": int}, {"which": w, "maxm": 4}, timeout=tmo, group=w, allow_empty=True))
        cubes.append(Cube(f"twin: {w} publishes the complete file", twin_complete, {"m": int}, {"which": w}, timeout=60, role="twin"))
    return CheckSpec(
        property_id="C20",
        level="fault_enumeration",
        cubes=cubes,
        functions=[status.Status.dump, buildzip.ZipCreator.create_zip, buildzip.ZipCreator._write_zip, buildzip.make_zip, buildzip.zip_dir,
                   transport.download_with_retries, transport.stream_download_to_temp, render.main.callback],
        bounds={"producers": PRODUCERS, "chunks": "1..%d" % maxm, "crash step": "every file-system step of the producer (symbolic 1..40)",
                "partial flush length": "symbolic 0..40 characters of the data being flushed at the crash",
                "fault": "every step, errno in {ENOSPC, EIO}", "fault then crash": "thorough tier, f < k"},
        stubs=["open / os.rename / os.replace / os.unlink / os.close / os.walk / tempfile.mkstemp / mkdtemp / shutil.rmtree in the producers' module namespaces -> vlib/stubs/modelfs.py",
               "zipfile.ZipFile -> writer emitting one record per member plus a trailer through the model open()",
               "make_nuwiki, PDF writer, HTTP client, Status/environment of render.main -> stubs producing m chunks",
               "loggers -> null objects"],
        assumptions=["write() only fills a user-space buffer; flush/close move it to the file; a killed process loses its buffers; rename/replace are atomic; "
                     "open(...,'w') truncates immediately", "kill = BaseException raised at the step (no except-Exception handler of the producer runs)"],
        outside=["power loss (no fsync reasoning)", "the zip / PDF byte formats", "qserve.Main.savedb (pickle file: written in place, not one of the property's four files)"],
        explanation="fault enumeration driven symbolically: crash step, partial-flush length, fault step and errno are z3 integers; the producers' real publish code runs "
        "against a model file system and after every crash / fault the final path must be absent, the previous version, or the complete new version",
        replay=replay,
    )


# ---------------------------------------------------------------------------- replay: real files, real process kill


def replay(cand: dict) -> dict:
    """The same producer on real files in a child process.  The model's step numbering need not coincide with the real
    call numbering (zipfile / buffered I/O issue their own calls), so the kill / fault position is searched around the
    model's one: first the model's index, then every index 1..30."""
    args = cand["args"]
    key = "k" if cand.get("concrete", {}).get("detail", {}).get("mode") == "crash" else "f"
    if key not in args:
        key = "k" if "k" in args else "f"
    tried = []
    last = None
    for idx in [args.get(key, 1)] + list(range(1, 31)):
        if idx in tried:
            continue
        tried.append(idx)
        a2 = dict(args)
        a2[key] = idx
        if key == "f" and "k" in a2 and a2["k"] <= idx:
            a2["k"] = idx + 1
        c2 = dict(cand)
        c2["args"] = a2
        last = _replay_one(c2)
        if last.get("reproduced") or last.get("error"):
            return last
        import re as _re

        mo = _re.search(r"producer finished after (\d+) calls", last.get("what", ""))
        if mo and idx > int(mo.group(1)) + 1 and idx >= max(tried[:1] + [0]) and len(tried) > 1:
            break
    return last


def _replay_one(cand: dict) -> dict:
    import json
    import shutil
    import subprocess
    import sys
    import tempfile

    d = cand.get("concrete", {}).get("detail")
    if not isinstance(d, dict):
        return {"reproduced": False, "error": "no concrete detail"}
    args = cand["args"]
    which = d["producer"]
    work = tempfile.mkdtemp(prefix="c20-replay-")
    try:
        out = os.path.join(work, "out")
        os.makedirs(out)
        src = os.path.join(work, "src")
        os.makedirs(src)
        m = int(args.get("m", 1))
        for i in range(m):
            with open(os.path.join(src, "f%d" % i), "w") as fh:
                fh.write("content %d" % i)
        final = os.path.join(out, os.path.basename(FINAL[which]))
        prev = args.get("prev_exists", True)
        if prev:
            if which == "status":
                open(final, "w").write(PREV[which])
            elif which in ("create_zip", "make_zip"):
                import zipfile

                with zipfile.ZipFile(final, "w") as z:
                    z.writestr("old", "old")
            else:
                open(final, "wb").write(PREV[which] * 10)
        before = open(final, "rb").read() if prev else None
        code = _CHILD
        p = subprocess.run([sys.executable, "-c", code, json.dumps({"which": which, "final": final, "src": src, "out": out, "m": m,
                                                                    "k": args.get("k", -1), "f": args.get("f", -1),
                                                                    "errno": ERRNOS[args.get("e", 0)] if "e" in args else ERRNOS[0]})],
                           capture_output=True, text=True, timeout=120)
        state = "absent"
        detail = ""
        if os.path.exists(final):
            data = open(final, "rb").read()
            if prev and data == before:
                state = "previous"
            else:
                state = "new?"
                try:
                    if which == "status":
                        json.loads(data.decode())
                    elif which in ("create_zip", "make_zip"):
                        import io
                        import zipfile

                        z = zipfile.ZipFile(io.BytesIO(data))
                        if z.testzip() is not None or len(z.namelist()) != m:
                            raise ValueError("incomplete zip: %r" % z.namelist())
                    else:
                        exp = (b"".join(b"<chunk %d>" % i for i in range(m)) if which == "download" else b"".join(b"%%PDF chunk %d " % i for i in range(m)))
                        if data != exp:
                            raise ValueError("content %r" % data[:60])
                    state = "complete-new"
                except Exception as e:
                    state = "PARTIAL"
                    detail = f"{type(e).__name__}: {e}"
        if state == "PARTIAL":
            return {"reproduced": True, "signature": f"C20|{which}|partial-file-under-final-name|{d['mode']}",
                    "what": f"{which}: process killed / I/O error at file-system call {args.get('k', args.get('f'))} leaves an unreadable {os.path.basename(final)} ({detail}); child said: {p.stdout[-200:]!r}"}
        return {"reproduced": False, "what": f"real run leaves the final path {state}; child: {p.stdout[-300:]!r} {p.stderr[-300:]!r}"}
    finally:
        shutil.rmtree(work, ignore_errors=True)


_CHILD = r'''
import builtins, json, os, sys, tempfile, zipfile
cfg = json.loads(sys.argv[1])
import mwlib.core.metabook
count = [0]
def gate(name):
    count[0] += 1
    if count[0] == cfg["k"]:
        sys.stdout.write("killed before call %d (%s)\n" % (count[0], name)); sys.stdout.flush()
        os._exit(9)
    if count[0] == cfg["f"]:
        if name in ("flush", "close") and os.path.exists("/dev/full"):
            return "full"   # the caller points the descriptor at /dev/full: the kernel itself fails the write
        raise OSError(cfg["errno"], "injected fault")
def wrap(mod, name):
    orig = getattr(mod, name)
    def w(*a, **k):
        gate(name)
        return orig(*a, **k)
    setattr(mod, name, w)
real_open = builtins.open
class GatedFile:
    def __init__(self, f): self.f = f
    def write(self, d): return self.f.write(d)
    def _full(self):
        fd = os.open("/dev/full", os.O_WRONLY); os.dup2(fd, self.f.fileno()); os.close(fd)
    def flush(self):
        if gate("flush") == "full": self._full()
        return self.f.flush()
    def close(self):
        if gate("close") == "full": self._full()
        return self.f.close()
    def __enter__(self): return self
    def __exit__(self, *a): self.close(); return False
    def __getattr__(self, n): return getattr(self.f, n)
def gopen(path, mode="r", *a, **k):
    if "w" in mode or "a" in mode:
        gate("open")
        return GatedFile(real_open(path, mode, *a, **k))
    return real_open(path, mode, *a, **k)
for n in ("rename", "replace", "unlink"):
    wrap(os, n)
wrap(tempfile, "mkstemp")
which = cfg["which"]
try:
    if which == "status":
        from mwlib.utils import status as S
        S.open = gopen
        st = S.Status(filename=cfg["final"], status={"status": "rendering", "progress": cfg["m"]}); st.stdout = None
        st.dump()
    elif which in ("create_zip", "make_zip"):
        from mwlib.apps import buildzip as B
        realzip = zipfile.ZipFile
        class GZ(realzip):
            def __init__(self, path, mode="r", *a, **k):
                if "w" in mode: gate("open-zip")
                super().__init__(path, mode, *a, **k)
            def write(self, *a, **k):
                gate("zip-member"); return super().write(*a, **k)
            def close(self):
                if self.fp is not None and self.mode == "w": gate("zip-close")
                return super().close()
        B.zipfile.ZipFile = GZ
        if which == "create_zip":
            B.ZipCreator.create_zip(cfg["src"], cfg["final"])
        else:
            def fake_nuwiki(fsdir=None, **kw):
                os.makedirs(fsdir)
                for n in os.listdir(cfg["src"]):
                    real_open(os.path.join(fsdir, n), "w").write("x")
            B.make_nuwiki = fake_nuwiki
            B.make_zip(output=cfg["final"], wiki_options={}, metabook=None, pod_client=None, status=None)
    elif which == "download":
        from mwlib.network import transport as T
        T.open = gopen
        chunks = [b"<chunk %d>" % i for i in range(cfg["m"])]
        class Resp:
            def raise_for_status(self): pass
            def iter_bytes(self, chunk_size=None): return iter(chunks)
            def __enter__(self): return self
            def __exit__(self, *a): return False
        class Client:
            def stream(self, m, u): return Resp()
        class E(Exception): pass
        class L:
            def __getattr__(self, n): return lambda *a, **k: None
        T.download_with_retries(client=Client(), url="u", path=cfg["final"], temp_path=cfg["final"] + ".tmp",
            retry_policy=T.build_download_retry_policy(1, 1, 2), http_status_error_cls=E, sleep_fn=lambda d: None, logger=L())
    elif which == "render":
        from mwlib.apps import render as R
        chunks = [b"%%PDF chunk %d " % i for i in range(cfg["m"])]
        def writer(env, output=None, status_callback=None, **kw):
            with gopen(output, "wb") as f:
                for c in chunks: f.write(c)
        class Env:
            images = None
            class wiki: siteinfo = {"general": {"lang": "en"}}
        class St:
            def __init__(self, *a, **k): pass
            def __call__(self, **kw): pass
        R.get_writer_from_options = lambda o: (writer, {})
        R.init_tmp_cleaner = lambda: None
        R.Status = St
        R.get_environment = lambda o: (Env(), St(), None)
        R.finish_render = lambda *a: None
        R.write_traceback = lambda *a: None
        params = {p.name: None for p in R.main.params}
        params.update(output=cfg["final"], writer="x", args=())
        R.main.callback(**params)
    print("producer finished after %d calls" % count[0])
except Exception as e:
    print("producer raised %s: %s after %d calls" % (type(e).__name__, e, count[0]))
'''
