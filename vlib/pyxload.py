"""Load mwlib's Cython modules templ/evaluate.pyx, nodes.pyx, node.pyx from their current source as plain Python.

They use no cdef/ctypedef syntax; compiled, their code cannot be traced (and `isinstance(x, str)` inside the C code
rejects symbolic strings).  A meta-path finder placed before the normal machinery compiles the .pyx text with the
`annotations` future flag (evaluate.pyx names an un-imported `Any` in annotations).  Must be installed before the
first import of mwlib.parser.templ.*; mwlib.core.metabook has to be imported first by the caller (import cycle).
"""
import __future__
import importlib.abc
import importlib.util
import os
import sys

TARGETS = {
    "mwlib.parser.templ.evaluate": "evaluate.pyx",
    "mwlib.parser.templ.nodes": "nodes.pyx",
    "mwlib.parser.templ.node": "node.pyx",
}


class _Loader(importlib.abc.Loader):
    def __init__(self, path):
        self.path = path

    def create_module(self, spec):
        return None

    def exec_module(self, module):
        with open(self.path, encoding="utf-8") as fh:
            src = fh.read()
        for bad in ("cdef ", "cpdef ", "ctypedef ", "cimport "):
            if bad in src:
                raise ImportError(f"{self.path} uses Cython-only syntax ({bad.strip()}): cannot be loaded as Python source")
        code = compile(src, self.path, "exec", flags=__future__.annotations.compiler_flag, dont_inherit=True)
        module.__file__ = self.path
        module.__verif_source_loaded__ = True
        exec(code, module.__dict__)


class _Finder(importlib.abc.MetaPathFinder):
    def find_spec(self, fullname, path, target=None):
        fn = TARGETS.get(fullname)
        if fn is None or not path:
            return None
        for d in path:
            p = os.path.join(d, fn)
            if os.path.exists(p):
                return importlib.util.spec_from_loader(fullname, _Loader(p), origin=p)
        return None


def install():
    for m in TARGETS:
        if m in sys.modules and not getattr(sys.modules[m], "__verif_source_loaded__", False):
            raise RuntimeError(f"{m} was imported (compiled) before pyxload.install()")
    if not any(isinstance(f, _Finder) for f in sys.meta_path):
        sys.meta_path.insert(0, _Finder())
