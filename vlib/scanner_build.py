"""Fresh build of mwlib's compiled scanner from the current _uscan.cc (translation validation / replay of C10)."""
import importlib.machinery
import importlib.util
import os
import shutil
import subprocess
import sysconfig
import tempfile

CC_PATH = os.path.join(os.environ.get("VERIF_REPO", "/repo"), "src/mwlib/parser/token/_uscan.cc")


class Fresh:
    """context manager: builds _uscan into a scratch dir (outside /repo and /verif), loads it, removes the dir afterwards"""

    def __init__(self, cc_path=CC_PATH):
        self.cc_path = cc_path
        self.dir = None
        self.mod = None

    def __enter__(self):
        self.dir = tempfile.mkdtemp(prefix="uscan-fresh-")
        so = os.path.join(self.dir, "_uscan" + (sysconfig.get_config_var("EXT_SUFFIX") or ".so"))
        inc = sysconfig.get_paths()["include"]
        cmd = ["g++", "-O1", "-shared", "-fPIC", "-w", "-I", inc, self.cc_path, "-o", so]
        p = subprocess.run(cmd, capture_output=True, text=True, timeout=300)
        if p.returncode != 0:
            shutil.rmtree(self.dir, ignore_errors=True)
            raise RuntimeError("building _uscan.cc failed: " + p.stderr[-800:])
        loader = importlib.machinery.ExtensionFileLoader("_uscan", so)
        spec = importlib.util.spec_from_loader("_uscan", loader)
        self.mod = importlib.util.module_from_spec(spec)
        loader.exec_module(self.mod)
        return self.mod

    def __exit__(self, *a):
        shutil.rmtree(self.dir, ignore_errors=True)
        return False


def harvest_test_strings(limit=4000):
    """every string literal of the repository's scanner / parser tests (inputs the maintainers thought of)"""
    import ast

    root = os.path.join(os.environ.get("VERIF_REPO", "/repo"), "tests/mwlib")
    out = []
    seen = set()
    for fn in ("test_mwscan.py", "test_parser.py", "test_refine.py", "test_table.py", "test_ebad.py", "test_uniq.py", "test_nowiki.py", "test_expander.py"):
        p = os.path.join(root, fn)
        if not os.path.exists(p):
            continue
        try:
            tree = ast.parse(open(p, encoding="utf-8").read())
        except SyntaxError:
            continue
        for node in ast.walk(tree):
            if isinstance(node, ast.Constant) and isinstance(node.value, str) and node.value not in seen:
                seen.add(node.value)
                out.append(node.value)
    return out[:limit]
