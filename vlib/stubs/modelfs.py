"""Model file system for the atomic-publication checks (C20).

path -> durable content.  A file opened for writing keeps written data in a user-space buffer; flush()/close() make it
durable; open(..., 'w') truncates at once; rename/replace switch the directory entry atomically; unlink removes it.
Every file-system operation is a numbered step:
  * crash_at = k : the process is killed before step k takes effect (buffers are lost).  If step k is a flush/close of
    buffered data, a prefix of `partial` characters of that data has reached the file (symbolic 0..len).
  * fault_at = f : step f raises OSError(errno) instead of taking effect.
"""
import errno as _errno


class ProcessKilled(BaseException):
    """the producer process was killed (not an Exception: `except Exception` handlers of the producer do not run)"""


class Inode:
    def __init__(self, data):
        self.data = data


class _FilesView:
    """path -> durable content (what a reader sees); writes through to inodes"""

    def __init__(self, fs):
        self.fs = fs

    def get(self, path, default=None):
        ino = self.fs.inodes.get(path)
        return default if ino is None else ino.data

    def __contains__(self, path):
        return path in self.fs.inodes

    def __getitem__(self, path):
        return self.fs.inodes[path].data

    def __setitem__(self, path, data):
        self.fs.inodes[path] = Inode(data)

    def __delitem__(self, path):
        del self.fs.inodes[path]

    def pop(self, path):
        return self.fs.inodes.pop(path).data


class ModelFS:
    def __init__(self, crash_at=-1, partial=0, fault_at=-1, fault_errno=_errno.ENOSPC):
        self.inodes = {}  # path -> Inode (an open file keeps writing to its inode after a rename, as on POSIX)
        self.files = _FilesView(self)
        self.crash_at = crash_at
        self.partial = partial
        self.fault_at = fault_at
        self.fault_errno = fault_errno
        self.step_no = 0
        self.log = []
        self.open_files = []
        self.tmp_counter = 0
        self.crashed = False
        self.faulted = False

    # ------------------------------------------------------------------ stepping
    def step(self, what, path, pending=None, fobj=None):
        """Returns normally if the operation may take effect."""
        self.step_no += 1
        self.log.append((self.step_no, what, path))
        if self.step_no == self.crash_at:
            if pending is not None and fobj is not None and len(pending) > 0:
                p = self.partial
                if 0 < p <= len(pending):
                    fobj._commit(pending[:p])
            self.crashed = True
            raise ProcessKilled(f"killed before step {self.step_no} ({what} {path})")
        if self.step_no == self.fault_at:
            self.faulted = True
            raise OSError(self.fault_errno, "injected fault", path)

    # ------------------------------------------------------------------ API handed to the producers
    def open(self, path, mode="r", *a, **k):
        if "w" in mode or "a" in mode or "x" in mode:
            self.step("open:" + mode, path)
            binary = "b" in mode
            if "w" in mode or path not in self.files:
                self.files[path] = b"" if binary else ""
            f = _WFile(self, path, binary)
            f.inode = self.inodes[path]
            self.open_files.append(f)
            return f
        if path not in self.files:
            raise FileNotFoundError(_errno.ENOENT, "No such file", path)
        return _RFile(self.files[path])

    def rename(self, src, dst):
        self.step("rename", src + " -> " + dst)
        if src not in self.files:
            raise FileNotFoundError(_errno.ENOENT, "No such file", src)
        self.inodes[dst] = self.inodes.pop(src)

    replace = rename

    def unlink(self, path):
        self.step("unlink", path)
        if path not in self.files:
            raise FileNotFoundError(_errno.ENOENT, "No such file", path)
        del self.files[path]

    remove = unlink

    def mkstemp(self, suffix="", prefix="tmp", dir=None, text=False):
        self.tmp_counter += 1
        path = (dir + "/" if dir else "/tmp/") + prefix + "%d" % self.tmp_counter + (suffix or "")
        self.step("mkstemp", path)
        self.files[path] = b""
        return 1000 + self.tmp_counter, path

    def close_fd(self, fd):
        pass

    def fsync(self, fd):
        """kernel buffers -> disk: a step, but Python's user-space buffer is NOT written by it"""
        self.step("fsync", "fd%d" % fd)

    def exists(self, path):
        return path in self.files


class _WFile:
    def __init__(self, fs, path, binary):
        self.fs = fs
        self.path = path
        self.buf = b"" if binary else ""
        self.closed = False
        self.name = path

    def _commit(self, data):
        self.inode.data = self.inode.data + data

    def write(self, data):
        if self.closed:
            raise ValueError("I/O operation on closed file")
        self.buf = self.buf + data  # user space only: no file-system step
        return len(data)

    def flush(self):
        if len(self.buf):
            self.fs.step("flush", self.path, self.buf, self)
            self._commit(self.buf)
            self.buf = self.buf[:0]

    def close(self):
        if self.closed:
            return
        self.closed = True
        if len(self.buf):
            pending = self.buf
            self.buf = self.buf[:0]
            self.fs.step("close+flush", self.path, pending, self)
            self._commit(pending)
        else:
            self.fs.step("close", self.path)

    def tell(self):
        return len(self.inode.data) + len(self.buf)

    def fileno(self):
        return 2000 + self.fs.open_files.index(self)

    def __enter__(self):
        return self

    def __exit__(self, et, ev, tb):
        if et is not None and issubclass(et, ProcessKilled):
            return False  # the process is gone: nothing is flushed
        self.close()
        return False


class _RFile:
    def __init__(self, data):
        self.data = data

    def read(self, *a):
        return self.data

    def __enter__(self):
        return self

    def __exit__(self, *a):
        return False


class ModelZipFile:
    """zipfile.ZipFile stand-in: the archive is a sequence of member records plus a trailer; what matters is how the
    producer publishes it."""

    fs = None

    def __init__(self, path, mode="r", compression=None, **kw):
        assert "w" in mode
        self.f = ModelZipFile.fs.open(path, "wb")
        self.n = 0

    def write(self, filepath, arcname=None, *a, **k):
        self.n += 1
        self.f.write(b"[member %d]" % self.n)
        self.f.flush()

    def writestr(self, name, data, *a, **k):
        self.write(name)

    def close(self):
        self.f.write(b"[central directory %d]" % self.n)
        self.f.close()

    def __enter__(self):
        return self

    def __exit__(self, et, ev, tb):
        if et is not None and issubclass(et, ProcessKilled):
            return False
        self.close()
        return False


def complete_zip(n):
    return b"".join(b"[member %d]" % i for i in range(1, n + 1)) + b"[central directory %d]" % n
