"""Deterministic scheduler stub + reference model for the qs job queue (C16, C17, C18, C19).

The real classes qs.jobs.workq / job and qs.qserve.QPlugin / db run unchanged.  What is replaced:
  * qs.jobs.event  -> Event / AsyncResult whose wait()/get() switch back to the harness greenlet until set
                      (semantics of gevent: code between two blocking points is atomic; a set() does not run the
                      waiter, it makes it runnable; AsyncResult.set() on a ready result overwrites its value;
                      kill = GreenletExit raised at the blocking point),
  * qs.jobs.time   -> harness clock,           qs.jobs.random -> choice() answered by the harness,
  * every client connection is a plain greenlet running one rpc_* call at a time on its own QPlugin instance
    (what rpcserver.handle_client does), disconnect = kill + handler.shutdown().
All oracles observe the API only: rpc_* return values and rpc_qinfo/rpc_getstats snapshots.
"""
import copy

import greenlet

from vlib.sym import assume

CHANNELS = ["A", "B"]
CHANSETS = [["A"], ["B"], ["A", "B"], []]  # [] = any channel

# operation kinds
ADD, PULL, RUN, FINISH, KILL, TICK, DISCONNECT, WAIT, READD, SETINFO, RESTORE, FINISH_ID, WATCHDOG, DROP = range(14)
OPNAMES = ["add", "pull", "run", "finish", "kill", "tick", "disconnect", "wait", "readd", "setinfo", "restore", "finish-id", "watchdog", "drop"]
FINISH_ERRORS = [None, "x", ""]


class WouldBlockMain(Exception):
    pass


class _Sched:
    sim = None


def _block(ev):
    cur = greenlet.getcurrent()
    if cur.parent is None or getattr(cur, "_qsim", None) is None:
        raise WouldBlockMain("blocking call outside a simulated connection")
    cur.parent.switch(("blocked", ev))


class Event:
    def __init__(self):
        self._flag = False

    def set(self):
        self._flag = True

    def clear(self):
        self._flag = False

    def is_set(self):
        return self._flag

    isSet = ready = is_set

    def wait(self, timeout=None):
        while not self._flag:
            _block(self)
        return True


class AsyncResult:
    def __init__(self):
        self._ready = False
        self._value = None

    def set(self, value=None):
        self._value = value  # gevent: a second set() overwrites the value
        self._ready = True

    def ready(self):
        return self._ready

    def successful(self):
        return self._ready

    @property
    def value(self):
        return self._value

    def get(self, block=True, timeout=None):
        while not self._ready:
            _block(self)
        return self._value

    def wait(self, timeout=None):
        while not self._ready:
            _block(self)
        return self._value


class EventModule:
    Event = Event
    AsyncResult = AsyncResult


class Clock:
    def __init__(self, sim):
        self.sim = sim

    def time(self):
        return self.sim.now


class Rand:
    def __init__(self, sim):
        self.sim = sim

    def choice(self, seq):
        n = len(seq)
        if n == 1:
            return seq[0]
        return seq[self.sim.next_choice(n)]


class RJ:
    """reference-model record of one accepted job"""

    def __init__(self, jid, channel, prio, serial, deadline):
        self.id = jid
        self.channel = channel
        self.prio = prio
        self.serial = serial
        self.deadline = deadline
        self.state = "queued"  # queued | pending | held | done
        self.holder = None
        self.deliveries = 0
        self.requeues = 0
        self.result = None
        self.error = None
        self.info = {}
        self.cause = "added"  # last transition, for the violation signature
        self.dropped = False  # removed by the watchdog after its time-to-live (finished jobs only)
        self.superseded = False  # killed and re-added: a newer enqueueing owns the id now
        self.drop_marked = False  # qdrop: the job is forgotten once it has finished AND a client has waited for it

    def key(self):
        return (self.prio, self.serial)


class Conn:
    def __init__(self, idx, handler):
        self.idx = idx
        self.handler = handler
        self.gr = None
        self.ev = None
        self.chans = None
        self.held = []

    @property
    def blocked(self):
        return self.gr is not None


class Violation(Exception):
    def __init__(self, prop, kind, **ctx):
        self.d = {"prop": prop, "kind": kind}
        self.d.update(ctx)


class Sim:
    def __init__(self, jobs_mod, qserve_mod, choices=(), nworkers=3, props=("C16", "C17"), pickler=None, start=1000):
        self.jobs_mod = jobs_mod
        self.qserve = qserve_mod
        self.props = props
        self.pickler = pickler or copy.deepcopy
        self.now = start
        self.choices = list(choices)
        self.choice_log = []
        jobs_mod.event = EventModule
        jobs_mod.time = Clock(self)
        jobs_mod.random = Rand(self)
        _Sched.sim = self
        self.db = qserve_mod.db()
        self._bind()
        self.nworkers = nworkers
        self.workers = [Conn(i, self.Handler()) for i in range(nworkers)]
        self.ref = {}  # jid -> RJ (the current enqueueing under that id)
        self.order = []  # ids in acceptance order (each id once)
        self.jobs = []  # every enqueueing ever accepted (a killed id can be enqueued again), in order
        self.waits = []  # (greenlet, RJ)
        self.suspicions = []  # (kind, better RJ, epoch, context)
        self.restored = False
        self.history = []
        self.greenlets = []
        self.max_worker = -1  # symmetry breaking: worker i is only named after worker i-1 has been
        self.chan_seen = False  # symmetry breaking: the first channel named is "A"

    def name_worker(self, widx):
        assume(0 <= widx < self.nworkers)
        assume(widx <= self.max_worker + 1)
        if widx > self.max_worker:
            self.max_worker = widx

    def _bind(self):
        self.wq = self.db.workq

        # NB: not type(name, bases, {...}): CrossHair's model of the 3-argument type() copies the dict's values
        class Handler(self.qserve.QPlugin):
            pass

        Handler.workq = self.wq
        Handler.db = self.db
        assert Handler.workq is self.wq
        self.Handler = Handler
        self.client = self.Handler()

    # ------------------------------------------------------------------ plumbing
    def next_choice(self, n):
        if not self.choices:
            # no symbolic choice left: the schedule is longer than the harness budgeted for
            assume(False)
        c = self.choices.pop(0)
        assume(0 <= c < n)
        self.choice_log.append(c)
        return c

    def spawn(self, fn, *args, **kw):
        g = greenlet.greenlet(lambda: ("done", fn(*args, **kw)))
        g._qsim = self
        self.greenlets.append(g)
        return g, g.switch()

    def cleanup(self):
        for g in self.greenlets:
            if not g.dead and g:
                try:
                    g.throw(greenlet.GreenletExit)
                except Exception:
                    pass
        self.greenlets = []

    def want(self, prop):
        if prop not in self.props:
            return False
        if "C18" in self.props and prop != "C18":
            return self.restored
        return True

    def fail(self, prop, kind, **ctx):
        if self.want(prop):
            raise Violation(prop, kind, **ctx)

    def snapshot(self, jid):
        return self.client.rpc_qinfo(jid)

    def by_serial(self, serial):
        for r in self.jobs:
            if r.serial == serial:
                return r
        return None

    # ------------------------------------------------------------------ observations shared by several ops
    def observe_handoffs(self, rjs, cause):
        """After a push: did the job go to a blocked puller (its AsyncResult now carries it)?"""
        for rj in rjs:
            for w in self.workers:
                if w.blocked and w.ev is not None and w.ev.ready():
                    v = w.ev._value
                    if v is not None and getattr(v, "serial", None) == rj.serial:
                        rj.state = "pending"
                        rj.holder = w.idx
                        rj.cause = cause + "->handed-to-blocked-puller"
                        break

    def check_outcomes(self, after):
        """finality (C17) / persistence (C18): every finished job shows its first outcome; unfinished ones are not done."""
        nfin = 0
        for r in self.jobs:
            if r.state == "done":
                nfin += 1
        for jid in self.order:
            rj = self.ref[jid]
            if rj.dropped:
                continue
            snap = self.snapshot(jid)
            if snap is None:
                if rj.state == "done" and self.watchdog_ran:
                    rj.dropped = True  # a finished job may be dropped once its time-to-live is over
                    continue
                self.fail("C16", "job-vanished", job=jid, after=after, cause=rj.cause)
                self.fail("C17", "job-vanished", job=jid, after=after, cause=rj.cause)
                self.fail("C18", "job-vanished", job=jid, after=after, cause=rj.cause)
                continue
            if snap.get("serial") != rj.serial:
                self.fail("C17", "job-id-names-another-job", job=jid, after=after, expected_serial=rj.serial, found_serial=snap.get("serial"))
                self.fail("C16", "job-id-names-another-job", job=jid, after=after, expected_serial=rj.serial, found_serial=snap.get("serial"))
                self.fail("C18", "job-id-names-another-job", job=jid, after=after, expected_serial=rj.serial, found_serial=snap.get("serial"))
                continue
            if rj.state == "done":
                if not snap.get("done", False):
                    self.fail("C17", "finished-job-became-unfinished", job=jid, after=after)
                    self.fail("C18", "finished-job-became-unfinished", job=jid, after=after)
                if snap.get("error") != rj.error or snap.get("result") != rj.result:
                    self.fail("C17", "outcome-changed", job=jid, after=after, first=[rj.result, rj.error],
                              now=[snap.get("result"), snap.get("error")])
                    self.fail("C18", "outcome-changed", job=jid, after=after, first=[rj.result, rj.error],
                              now=[snap.get("result"), snap.get("error")])
                if snap.get("info") != rj.info:
                    self.fail("C18", "info-changed", job=jid, after=after, first=rj.info, now=snap.get("info"))
            else:
                if snap.get("done", False):
                    self.fail("C17", "job-finished-without-cause", job=jid, after=after, error=snap.get("error"), cause=rj.cause)
                    self.fail("C18", "job-finished-without-cause", job=jid, after=after, error=snap.get("error"), cause=rj.cause)
        if "C18" not in self.props and not self.restored:
            st = self.client.rpc_getstats()
            total = 0
            for ch, c in st["channel2stat"].items():
                total += c["error"] + c["timeout"] + c["killed"] + c["success"]
            if total != nfin:
                self.fail("C17", "stats-do-not-add-up", counted=total, finished=nfin, after=after)
        # waiting clients are released exactly when their job is finished
        for g, rj in list(self.waits):
            ev_set = g._wait_ev.is_set()
            if rj.state == "done" and not ev_set:
                self.fail("C17", "waiter-not-released", job=rj.id, after=after)
            if ev_set:
                out = g.switch()
                self.waits.remove((g, rj))
                if out[0] != "done":
                    self.fail("C17", "waiter-not-released", job=rj.id, after=after)
                elif rj.state != "done":
                    self.fail("C17", "waiter-released-early", job=rj.id, after=after)
                elif rj.drop_marked and self.ref.get(rj.id) is rj:
                    rj.dropped = True  # the waiter has seen the outcome of a job marked by qdrop: the server forgets it

    watchdog_ran = False

    def candidates(self, chans):
        out = []
        for rj in self.jobs:
            if rj.state == "queued" and (not chans or rj.channel in chans):
                out.append(rj)
        return out

    def delivery(self, w, snap, immediate, cands):
        jid = snap["jobid"]
        rj = self.by_serial(snap.get("serial"))
        if rj is None or rj.id != jid:
            self.fail("C16", "phantom-job-delivered", job=jid)
            return
        if w.chans and rj.channel not in w.chans:
            self.fail("C17", "job-from-unrequested-channel", job=jid, channel=rj.channel, asked=w.chans)
        if snap.get("done", False) or rj.state == "done":
            self.fail("C17", "finished-job-delivered", job=jid, error=snap.get("error"), cause=rj.cause,
                      how="immediate" if immediate else "hand-off")
        if rj.state == "held" and rj.holder is not None and rj.holder != w.idx:
            self.fail("C16", "delivered-to-two-live-workers", job=jid, first=rj.holder, second=w.idx, cause=rj.cause)
        if rj.state != "done" and rj.deliveries + 1 > 1 + rj.requeues:
            self.fail("C16", "handed-out-twice", job=jid, deliveries=rj.deliveries + 1, requeues=rj.requeues, cause=rj.cause)
        for s in self.suspicions:
            if s[1] is rj and s[2] == rj.requeues and rj.state == "queued":
                self.fail("C17", s[0], job=s[3], better=jid)
        if immediate and rj.state != "done":
            for r in cands:
                if r is not rj and r.key() < rj.key():
                    self.suspicions.append(("not-lowest-priority-oldest-first", r, r.requeues, jid))
        if rj.state != "done":
            rj.state = "held"
            rj.holder = w.idx
            rj.cause = "delivered"
        rj.deliveries += 1
        w.held.append(rj)

    def _finish_ref(self, rj, result, error, cause):
        if rj.state != "done":
            rj.state = "done"
            rj.result, rj.error = result, error
            rj.cause = cause

    # ------------------------------------------------------------------ operations
    def op_add(self, ch, prio, timeout):
        assume(0 <= ch < 2)
        if not self.chan_seen:
            assume(ch == 0)
            self.chan_seen = True
        assume(1 <= timeout)
        channel = CHANNELS[ch]
        self.history.append(["add", channel, prio, timeout])
        jid = self.client.rpc_qadd(channel=channel, payload=None, priority=prio, timeout=timeout)
        if jid in self.ref:
            self.fail("C18" if self.restored else "C17", "job-id-reused", job=jid)
            self.fail("C16", "job-id-reused", job=jid)
            return
        self._accept(jid, channel, prio, timeout)
        self.check_outcomes("add")

    def _accept(self, jid, channel, prio, timeout):
        rj = RJ(jid, channel, prio, len(self.jobs) + 1, self.now + timeout)
        snap = self.snapshot(jid)
        if snap is not None:
            rj.serial = snap["serial"]
        if jid in self.ref:
            self.ref[jid].superseded = True
        else:
            self.order.append(jid)
        self.ref[jid] = rj
        self.jobs.append(rj)
        self.observe_handoffs([rj], "added")
        return rj

    def op_pull(self, widx, cs):
        self.name_worker(widx)
        assume(0 <= cs < len(CHANSETS))
        if cs < 2 and not self.chan_seen:
            assume(cs == 0)
            self.chan_seen = True
        w = self.workers[widx]
        assume(not w.blocked)
        chans = list(CHANSETS[cs])
        self.history.append(["pull", widx, chans])
        cands = self.candidates(chans)
        w.chans = chans
        g, out = self.spawn(w.handler.rpc_qpull, chans)
        if out[0] == "done":
            self.delivery(w, out[1], True, cands)
        else:
            w.gr = g
            w.ev = out[1]
            if cands:
                best = cands[0]
                for r in cands:
                    if r.key() < best.key():
                        best = r
                self.suspicions.append(("pull-blocked-although-candidate-queued", best, best.requeues, "worker%d" % widx))
        self.check_outcomes("pull")

    def op_run(self, widx):
        assume(0 <= widx < self.nworkers)
        w = self.workers[widx]
        assume(w.blocked and w.ev.ready())
        self.history.append(["run", widx])
        self._resume(w)
        self.check_outcomes("run")

    def _resume(self, w):
        g = w.gr
        cands = self.candidates(w.chans)
        out = g.switch()
        if out[0] != "done":
            # woke up and blocked again (its job had finished meanwhile): stays a blocked puller
            w.ev = out[1]
            for r in self.jobs:
                if r.state == "pending" and r.holder == w.idx:
                    r.state = "missing"
                    r.cause = "hand-off not picked up by the woken puller"
            return
        w.gr = None
        w.ev = None
        snap = out[1]
        got = self.by_serial(snap.get("serial"))
        # a woken puller whose job had finished meanwhile may take a queued job instead: same rules as a direct pull
        immediate = got is not None and got.state == "queued"
        self.delivery(w, snap, immediate, cands if immediate else [])
        for r in self.jobs:
            if r.state == "pending" and r.holder == w.idx:
                r.state = "missing"
                r.cause = "hand-off overwritten by a later push to the same blocked puller"

    def op_finish(self, widx, which, err, by_id=False):
        assume(0 <= widx < self.nworkers)
        w = self.workers[widx]
        assume(not w.blocked)
        assume(0 <= err < len(FINISH_ERRORS))
        if by_id:
            held = None  # canonical prefixes name the job directly
            for r in w.held:
                if r.id == which:
                    held = r
            assume(held is not None)
        else:
            assume(0 <= which < len(w.held))
            held = w.held[which]
        jid = held.id
        error = FINISH_ERRORS[err]
        result = None if error else {"r": jid}
        self.history.append(["finish", widx, jid, error])
        w.handler.rpc_qfinish(jid, result=result, error=error)
        w.held.remove(held)
        # the report goes by id: it lands on whatever enqueueing owns the id now
        target = self.ref[jid]
        if not target.dropped:
            self._finish_ref(target, result, error, "finished")
        self.check_outcomes("finish")

    def op_kill(self, which):
        assume(0 <= which < len(self.order))
        jid = self.order[which]
        rj = self.ref[jid]
        assume(not rj.dropped)
        self.history.append(["kill", jid])
        self.client.rpc_qkill([jid])
        self._finish_ref(rj, None, "killed", "killed")
        self.check_outcomes("kill")

    def op_tick(self, delta):
        assume(0 <= delta)
        self.history.append(["tick", delta])
        self.now = self.now + delta
        self.wq.handletimeouts()
        for rj in self.jobs:
            if rj.state != "done":
                if rj.deadline < self.now:
                    self._finish_ref(rj, None, "timeout", "timed-out while " + rj.state)
                elif rj.deadline == self.now and self.ref.get(rj.id) is rj:
                    snap = self.snapshot(rj.id)  # boundary instant: either reading is acceptable
                    if snap is not None and snap.get("done", False) and snap.get("error") == "timeout":
                        self._finish_ref(rj, None, "timeout", "timed-out while " + rj.state)
        self.check_outcomes("tick")

    def op_watchdog(self):
        """the server's periodic dropdead(): finished jobs get a drop deadline (ttl) and are dropped after it"""
        self.history.append(["watchdog"])
        self.wq.dropdead()
        self.watchdog_ran = True
        self.check_outcomes("watchdog")

    def op_disconnect(self, widx):
        self.name_worker(widx)
        w = self.workers[widx]
        self.history.append(["disconnect", widx])
        if w.blocked:
            g = w.gr
            g.throw(greenlet.GreenletExit)
            w.gr = None
            w.ev = None
        w.handler.shutdown()
        back = []
        for rj in self.jobs:
            if rj.state == "pending" and rj.holder == w.idx:
                rj.state = "queued"
                rj.holder = None
                rj.cause = "hand-off pending when its puller disconnected"
                back.append(rj)
            elif rj.state == "held" and rj.holder == w.idx:
                rj.state = "queued"
                rj.holder = None
                rj.requeues += 1
                rj.cause = "requeued after its worker disconnected"
                back.append(rj)
        w.handler = self.Handler()
        w.held = []
        self.observe_handoffs(back, "requeued")
        self.check_outcomes("disconnect")

    def op_wait(self, which):
        assume(0 <= which < len(self.order))
        jid = self.order[which]
        rj = self.ref[jid]
        assume(not rj.dropped)
        self.history.append(["wait", jid])
        g, out = self.spawn(self.Handler().rpc_qwait, [jid])
        if out[0] == "done":
            if rj.state != "done":
                self.fail("C17", "waiter-released-early", job=jid, after="wait")
            elif rj.drop_marked:
                rj.dropped = True  # finished, marked by qdrop and now waited for: the server forgets it
        else:
            if rj.state == "done":
                self.fail("C18" if self.restored else "C17", "wait-on-finished-job-blocks", job=jid)
            g._wait_ev = out[1]
            self.waits.append((g, rj))
        self.check_outcomes("wait")

    def op_drop(self, which):
        """qdrop: mark a job to be forgotten after it has finished and been waited for; until then it is a job like any other"""
        assume(0 <= which < len(self.order))
        jid = self.order[which]
        rj = self.ref[jid]
        assume(not rj.dropped)
        self.history.append(["drop", jid])
        self.client.rpc_qdrop([jid])
        rj.drop_marked = True
        self.check_outcomes("drop")

    def op_readd(self, which):
        """add under an id that already exists: the existing job is returned, unless it was killed (then it is enqueued anew)"""
        assume(0 <= which < len(self.order))
        jid = self.order[which]
        rj = self.ref[jid]
        assume(not rj.dropped)
        self.history.append(["readd", jid])
        n0 = self.client.rpc_getstats()["numjobs"]
        r = self.client.rpc_qadd(channel=rj.channel, jobid=jid, priority=rj.prio, timeout=500)
        n1 = self.client.rpc_getstats()["numjobs"]
        snap = self.snapshot(jid)
        if rj.state == "done" and rj.error == "killed":
            if r != jid or snap is None or snap.get("serial") == rj.serial or snap.get("done", False):
                self.fail("C17", "killed-job-not-enqueued-anew", job=jid, returned=r)
                self.check_outcomes("readd")
                return
            self._accept(jid, rj.channel, rj.prio, 500)
        elif r != jid or n1 != n0 or snap is None or snap.get("serial") != rj.serial:
            self.fail("C17", "re-add-created-second-job", job=jid, returned=r, numjobs=[n0, n1])
        self.check_outcomes("readd")

    def op_setinfo(self, which, val):
        assume(0 <= which < len(self.order))
        assume(0 <= val < 2)
        jid = self.order[which]
        assume(not self.ref[jid].dropped)
        self.history.append(["setinfo", jid, val])
        self.client.rpc_qsetinfo(jid, {"status": "s%d" % val})
        self.ref[jid].info["status"] = "s%d" % val
        self.check_outcomes("setinfo")

    def op_restore(self):
        """Server stops (state saved as it is, no connection gets to run its shutdown()) and starts again."""
        self.history.append(["restore"])
        newdb = self.pickler(self.db)
        self.cleanup()
        self.db = newdb
        self._bind()
        self.workers = [Conn(i, self.Handler()) for i in range(self.nworkers)]
        self.waits = []
        self.suspicions = []
        self.restored = True
        for rj in self.jobs:
            if rj.superseded and self.ref.get(rj.id) is not rj:
                continue  # an id's older enqueueing is not part of the saved state
            if rj.state in ("held",):
                rj.requeues += 1
            if rj.state in ("held", "pending", "missing"):
                rj.cause = "was " + rj.state + " at restart"
                rj.state = "queued"
                rj.holder = None
        self.check_outcomes("restore")

    def step(self, op, a, b, c):
        if op == ADD:
            self.op_add(a, b, c)
        elif op == PULL:
            self.op_pull(a, b)
        elif op == RUN:
            self.op_run(a)
        elif op == FINISH:
            self.op_finish(a, b, c)
        elif op == KILL:
            self.op_kill(a)
        elif op == TICK:
            self.op_tick(c)
        elif op == DISCONNECT:
            self.op_disconnect(a)
        elif op == WAIT:
            self.op_wait(a)
        elif op == READD:
            self.op_readd(a)
        elif op == SETINFO:
            self.op_setinfo(a, b)
        elif op == RESTORE:
            self.op_restore()
        elif op == FINISH_ID:
            self.op_finish(a, b, c, by_id=True)
        elif op == WATCHDOG:
            self.op_watchdog()
        elif op == DROP:
            self.op_drop(a)
        else:
            assume(False)

    # ------------------------------------------------------------------ final drain (conservation)
    def drain(self):
        self.history.append(["drain"])
        for w in self.workers:
            if w.blocked and w.ev.ready():
                self._resume(w)
        fresh = Conn(99, self.Handler())
        fresh.chans = []
        for _ in range(len(self.jobs) + 1):
            cands = self.candidates([])
            g, out = self.spawn(fresh.handler.rpc_qpull, [])
            if out[0] != "done":
                break
            self.delivery(fresh, out[1], True, cands)
        else:
            self.fail("C16", "drain-does-not-terminate")
        for rj in self.jobs:
            if rj.state not in ("done", "held"):
                self.fail("C16", "job-lost", job=rj.id, last_state=rj.state, cause=rj.cause)
                if self.restored:
                    self.fail("C18", "job-lost", job=rj.id, last_state=rj.state, cause=rj.cause)
        self.check_outcomes("drain")


def run_schedule(jobs_mod, qserve_mod, ops, choices, props, nworkers=3, pickler=None, do_drain=True):
    """Run a list of (op, a, b, c); return None or the violation dict."""
    sim = Sim(jobs_mod, qserve_mod, choices=choices, nworkers=nworkers, props=props, pickler=pickler)
    try:
        try:
            for op, a, b, c in ops:
                sim.step(op, a, b, c)
            if do_drain:
                sim.drain()
        except Violation as v:
            d = dict(v.d)
            d["history"] = sim.history
            d["choices"] = sim.choice_log
            d["sig"] = d["prop"] + "|" + d["kind"] + ("|" + str(d.get("cause")) if d.get("cause") else "")
            return d
        except Exception as e:
            # an rpc_* call of the real server raised (the client would get an error instead of an answer): a violation when the
            # exception comes out of the server's own code; anything else is a harness problem and propagates
            tb = e.__traceback__
            last = None
            while tb is not None:
                last = tb.tb_frame
                tb = tb.tb_next
            fname = (last.f_code.co_filename if last is not None else "") or ""
            if "/qs/" not in fname and "qs." not in (last.f_globals.get("__name__", "") if last is not None else ""):
                raise
            if "C17" not in props:
                raise  # C16 alone says nothing about an operation that fails; it stays an unexplained exception (harness error), not a C16 violation
            prop = "C17"
            return {"prop": prop, "kind": "server-raised", "exc": type(e).__name__, "detail": str(e)[:100], "where": last.f_code.co_name,
                    "history": sim.history, "choices": sim.choice_log, "sig": f"{prop}|server-raised|{type(e).__name__}|{last.f_code.co_name}"}
        return None
    finally:
        sim.cleanup()
