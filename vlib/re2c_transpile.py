"""E2: transpile mwlib's re2c-generated scanner (_uscan.cc) to Python, from the current source, on every run.

Handles exactly the C/C++ subset that file uses: the mwtok enum, the Scanner class (constructor, found, bol, eol,
newline) and Scanner::scan() (re2c DFA: labels, goto, if/else on yych, switch, YYCURSOR/YYMARKER/yyaccept, action
blocks).  Pointers into the text become integer indices; vector<Token> becomes a Python list of Tok objects.  Anything
outside the subset raises TranspileError (a harness error, never a verdict).  The result is validated against a
freshly compiled _uscan on every run (vlib/scanner_validate.py).
"""
import re


class TranspileError(Exception):
    pass


TOKEN_RX = re.compile(r"""
    (?P<ws>\s+|//[^\n]*|/\*.*?\*/)
  | (?P<num>0[xX][0-9A-Fa-f]+|\d+)
  | (?P<chr>'(?:\\.|[^'\\])')
  | (?P<id>[A-Za-z_]\w*)
  | (?P<op>\+\+|--|->|==|!=|<=|>=|&&|\|\||\+=|-=|[-+*/%=<>!&|(){}\[\];,.:?~^])
""", re.X | re.S)

ESC = {"n": 10, "t": 9, "r": 13, "0": 0, "\\": 92, "'": 39, '"': 34, "f": 12, "v": 11, "a": 7, "b": 8}


def tokenize(src):
    src = re.sub(r"^\s*#.*$", "", src, flags=re.M)  # preprocessor lines (#line, #define are read separately)
    out = []
    pos = 0
    while pos < len(src):
        m = TOKEN_RX.match(src, pos)
        if not m:
            raise TranspileError("cannot tokenize at %r" % src[pos:pos + 30])
        pos = m.end()
        if m.lastgroup == "ws":
            continue
        out.append((m.lastgroup, m.group()))
    return out


class P:
    """recursive-descent parser for the statement / expression subset"""

    TYPES = {"Py_UCS4", "Token", "int", "unsigned", "YYCTYPE", "bool", "void", "mwtok", "size_t", "long", "const", "auto"}

    def __init__(self, toks, defines, pointers, members, enum):
        self.t = toks
        self.i = 0
        self.defines = defines
        self.pointers = set(pointers)
        self.members = set(members)
        self.enum = enum

    def peek(self, k=0):
        return self.t[self.i + k] if self.i + k < len(self.t) else ("eof", "")

    def next(self):
        tok = self.peek()
        self.i += 1
        return tok

    def accept(self, val):
        if self.peek()[1] == val:
            self.i += 1
            return True
        return False

    def expect(self, val):
        tok = self.next()
        if tok[1] != val:
            raise TranspileError("expected %r, got %r (near %r)" % (val, tok[1], " ".join(x[1] for x in self.t[max(0, self.i - 8):self.i + 4])))

    # ---------------------------------------------------------------- statements -> AST
    def block_items(self):
        items = []
        while self.peek()[1] != "}" and self.peek()[0] != "eof":
            items.append(self.statement())
        return items

    def statement(self):
        kind, val = self.peek()
        if val == "{":
            self.next()
            items = self.block_items()
            self.expect("}")
            return ("block", items)
        if val == ";":
            self.next()
            return ("block", [])
        if kind == "id" and self.peek(1)[1] == ":" and val not in ("case", "default"):
            self.next()
            self.next()
            return ("label", val)
        if val == "if":
            self.next()
            self.expect("(")
            cond = self.expr()
            self.expect(")")
            then = self.statement()
            other = None
            if self.accept("else"):
                other = self.statement()
            return ("if", cond, then, other)
        if val == "goto":
            self.next()
            lab = self.next()[1]
            self.expect(";")
            return ("goto", lab)
        if val == "while":
            self.next()
            self.expect("(")
            cond = self.expr()
            self.expect(")")
            return ("while", cond, self.statement(), None)
        if val == "for":
            self.next()
            self.expect("(")
            init = self.statement() if self.peek()[1] != ";" else (self.next() and ("block", []))
            cond = self.expr() if self.peek()[1] != ";" else ("num", 1)
            self.expect(";")
            step = None
            if self.peek()[1] != ")":
                step = ("expr", self.expr())
            self.expect(")")
            return ("block", [init, ("while", cond, self.statement(), step)])
        if val in ("break", "continue"):
            self.next()
            self.expect(";")
            return (val,)
        if val == "return":
            self.next()
            e = None
            if self.peek()[1] != ";":
                e = self.expr()
            self.expect(";")
            return ("return", e)
        if val == "switch":
            self.next()
            self.expect("(")
            e = self.expr()
            self.expect(")")
            self.expect("{")
            cases = []
            default = None
            while not self.accept("}"):
                if self.accept("case"):
                    c = self.expr()
                    self.expect(":")
                    labels = [c]
                    while self.peek()[1] == "case":
                        self.next()
                        labels.append(self.expr())
                        self.expect(":")
                    body = self.statement()
                    cases.append((labels, body))
                elif self.accept("default"):
                    self.expect(":")
                    default = self.statement()
                else:
                    raise TranspileError("unsupported construct in switch: %r" % (self.peek(),))
            return ("switch", e, cases, default)
        if val == "RET":
            self.next()
            self.expect("(")
            e = self.expr()
            self.expect(")")
            self.accept(";")
            return ("block", [("expr", ("call", ("name", "found"), [e])), ("return", e)])
        if val == "memset":
            # memset(&lineflags, 0, sizeof(lineflags));
            self.next()
            self.expect("(")
            self.expect("&")
            name = self.next()[1]
            self.expect(",")
            zero = self.next()[1]
            self.expect(",")
            self.expect("sizeof")
            self.expect("(")
            self.next()
            self.expect(")")
            self.expect(")")
            self.expect(";")
            if zero != "0":
                raise TranspileError("memset with a non-zero value")
            return ("zero_struct", name)
        if kind == "id" and val in self.TYPES:
            return self.declaration()
        e = self.expr()
        self.expect(";")
        return ("expr", e)

    def declaration(self):
        while self.peek()[0] == "id" and self.peek()[1] in self.TYPES:
            base = self.next()[1]
        is_ptr = False
        while self.peek()[1] in ("*", "&"):
            if self.next()[1] == "*":
                is_ptr = True
        name = self.next()[1]
        if is_ptr:
            self.pointers.add(name)
        init = None
        if self.accept("="):
            init = self.expr()
        elif self.peek()[1] == "(":
            self.next()
            init = self.expr()
            self.expect(")")
        self.expect(";")
        return ("decl", base, name, init)

    # ---------------------------------------------------------------- expressions -> AST
    def expr(self):
        return self.assignment()

    def assignment(self):
        left = self.logic_or()
        if self.peek()[1] in ("=", "+=", "-="):
            op = self.next()[1]
            right = self.assignment()
            return ("assign", op, left, right)
        if self.peek()[1] == "?":
            self.next()
            a = self.assignment()
            self.expect(":")
            b = self.assignment()
            return ("ternary", left, a, b)
        return left

    def logic_or(self):
        e = self.logic_and()
        while self.peek()[1] == "||":
            self.next()
            e = ("bin", "or", e, self.logic_and())
        return e

    def logic_and(self):
        e = self.equality()
        while self.peek()[1] == "&&":
            self.next()
            e = ("bin", "and", e, self.equality())
        return e

    def equality(self):
        e = self.relational()
        while self.peek()[1] in ("==", "!="):
            op = self.next()[1]
            e = ("bin", op, e, self.relational())
        return e

    def relational(self):
        e = self.additive()
        while self.peek()[1] in ("<", ">", "<=", ">="):
            op = self.next()[1]
            e = ("bin", op, e, self.additive())
        return e

    def additive(self):
        e = self.unary()
        while self.peek()[1] in ("+", "-"):
            op = self.next()[1]
            e = ("bin", op, e, self.unary())
        return e

    def unary(self):
        kind, val = self.peek()
        if val == "!":
            self.next()
            return ("not", self.unary())
        if val == "-":
            self.next()
            return ("neg", self.unary())
        if val == "*":
            self.next()
            return ("deref", self.unary())
        if val in ("++", "--"):
            self.next()
            return ("preinc", val, self.unary())
        return self.postfix()

    def postfix(self):
        e = self.primary()
        while True:
            val = self.peek()[1]
            if val == "[":
                self.next()
                idx = self.expr()
                self.expect("]")
                e = ("index", e, idx)
            elif val == "(":
                self.next()
                args = []
                if self.peek()[1] != ")":
                    args.append(self.expr())
                    while self.accept(","):
                        args.append(self.expr())
                self.expect(")")
                e = ("call", e, args)
            elif val in (".", "->"):
                self.next()
                e = ("attr", e, self.next()[1])
            elif val in ("++", "--"):
                self.next()
                e = ("postinc", val, e)
            else:
                return e

    def primary(self):
        kind, val = self.next()
        if kind == "num":
            return ("num", int(val, 16) if val.lower().startswith("0x") else int(val))
        if kind == "chr":
            body = val[1:-1]
            return ("num", ESC.get(body[1], ord(body[1])) if body[0] == "\\" else ord(body))
        if kind == "id":
            if val in self.defines:
                sub = P(tokenize(self.defines[val]), {}, self.pointers, self.members, self.enum)
                return sub.expr()
            if val == "true":
                return ("num", 1)
            if val == "false":
                return ("num", 0)
            return ("name", val)
        if val == "(":
            # C-style cast to an integer type: (int)x, (size_t)x, (unsigned int)x
            j = self.i
            while j < len(self.t) and self.t[j][0] == "id" and self.t[j][1] in self.TYPES:
                j += 1
            if j > self.i and j < len(self.t) and self.t[j][1] == ")":
                self.i = j + 1
                return self.unary()
            e = self.expr()
            self.expect(")")
            return e
        raise TranspileError("unsupported expression token %r" % val)


class Gen:
    """AST -> Python source"""

    def __init__(self, pointers, members, enum, locals_as_attrs):
        self.pointers = pointers
        self.members = members
        self.enum = enum
        self.locals_as_attrs = locals_as_attrs
        self.local_names = set()

    def name(self, n):
        if n in self.enum:
            return str(self.enum[n])
        if n in self.members:
            return "self." + n
        if self.locals_as_attrs:
            self.local_names.add(n)
            return "self.l_" + n
        return n

    def is_pointer(self, e):
        return e[0] == "name" and e[1] in self.pointers

    def ex(self, e, pre):
        k = e[0]
        if k == "num":
            return str(e[1])
        if k == "name":
            return self.name(e[1])
        if k == "not":
            return "(not %s)" % self.ex(e[1], pre)
        if k == "neg":
            return "(-%s)" % self.ex(e[1], pre)
        if k == "deref":
            return "self.rd(%s)" % self.ex(e[1], pre)
        if k == "preinc":
            target = self.ex(e[2], pre)
            pre.append("%s %s= 1" % (target, "+" if e[1] == "++" else "-"))
            return target
        if k == "postinc":
            # only as a statement of its own (value unused): same as the prefix form
            target = self.ex(e[2], pre)
            pre.append("%s %s= 1" % (target, "+" if e[1] == "++" else "-"))
            return "None"
        if k == "ternary":
            apre, bpre = [], []
            c = self.ex(e[1], pre)
            a = self.ex(e[2], apre)
            b = self.ex(e[3], bpre)
            if apre or bpre:
                raise TranspileError("side effect inside ?:")
            return "(%s if %s else %s)" % (a, c, b)
        if k == "assign":
            target = self.ex(e[2], pre) if e[2][0] != "attr" else self.attr_target(e[2], pre)
            value = self.ex(e[3], pre)
            pre.append("%s %s %s" % (target, e[1], value))
            return target
        if k == "bin":
            op = e[1]
            if op in ("and", "or"):
                rpre = []
                left = self.ex(e[2], pre)
                right = self.ex(e[3], rpre)
                if rpre:
                    raise TranspileError("side effect in the right operand of && / ||")
                return "(%s %s %s)" % (left, op, right)
            return "(%s %s %s)" % (self.ex(e[2], pre), op, self.ex(e[3], pre))
        if k == "index":
            if self.is_pointer(e[1]):
                return "self.rd(%s + %s)" % (self.ex(e[1], pre), self.ex(e[2], pre))
            return "%s[%s]" % (self.ex(e[1], pre), self.ex(e[2], pre))
        if k == "attr":
            return self.attr_target(e, pre)
        if k == "call":
            fn = e[1]
            if fn[0] == "attr" and fn[2] == "size" and not e[2]:
                return "len(%s)" % self.ex(fn[1], pre)
            if fn[0] == "attr" and fn[2] == "push_back":
                pre.append("%s.append(%s)" % (self.ex(fn[1], pre), self.ex(e[2][0], pre)))
                return "None"
            if fn[0] == "attr" and fn[2] == "begin" and not e[2]:
                return "0"  # iterators of the token vector are indices
            if fn[0] == "attr" and fn[2] == "end" and not e[2]:
                return "len(%s)" % self.ex(fn[1], pre)
            if fn[0] == "attr" and fn[2] == "erase" and len(e[2]) == 1:
                pre.append("del %s[%s]" % (self.ex(fn[1], pre), self.ex(e[2][0], pre)))
                return "None"
            if fn[0] == "attr" and fn[2] == "erase" and len(e[2]) == 2:
                pre.append("del %s[%s:%s]" % (self.ex(fn[1], pre), self.ex(e[2][0], pre), self.ex(e[2][1], pre)))
                return "None"
            if fn[0] == "attr" and fn[2] == "insert" and len(e[2]) == 2:
                pre.append("%s.insert(%s, %s)" % (self.ex(fn[1], pre), self.ex(e[2][0], pre), self.ex(e[2][1], pre)))
                return "None"
            if fn[0] == "attr" and fn[2] == "pop_back" and not e[2]:
                pre.append("%s.pop()" % self.ex(fn[1], pre))
                return "None"
            if fn[0] == "attr" and fn[2] == "back" and not e[2]:
                return "%s[-1]" % self.ex(fn[1], pre)
            if fn[0] == "attr" and fn[2] == "empty" and not e[2]:
                return "(len(%s) == 0)" % self.ex(fn[1], pre)
            if fn[0] == "name" and fn[1] in ("found", "bol", "eol", "newline"):
                return "self.%s(%s)" % (fn[1], ", ".join(self.ex(a, pre) for a in e[2]))
            raise TranspileError("unsupported call %r" % (fn,))
        raise TranspileError("unsupported expression %r" % (e,))

    def attr_target(self, e, pre):
        base = e[1]
        if base[0] == "name" and base[1] == "lineflags":
            return "self.lineflags_" + e[2]
        return "%s.%s" % (self.ex(base, pre), {"type": "type", "start": "start", "len": "len"}.get(e[2], e[2]))

    def stmt(self, s, ind, ctx):
        """ctx: dict(goto=callable(label)->str, ret=callable(expr_str)->list of lines)"""
        k = s[0]
        pad = "    " * ind
        out = []
        if k == "block":
            for x in s[1]:
                out += self.stmt(x, ind, ctx)
            return out or [pad + "pass"]
        if k == "expr":
            pre = []
            v = self.ex(s[1], pre)
            out += [pad + p for p in pre]
            if s[1][0] not in ("assign", "preinc", "postinc") and v != "None":
                out.append(pad + v)
            return out or [pad + "pass"]
        if k == "decl":
            pre = []
            if s[3] is not None:
                v = self.ex(s[3], pre)
            elif s[1] == "Token":
                v = "Tok()"
            else:
                v = "0"
            return [pad + p for p in pre] + [pad + "%s = %s" % (self.name(s[2]), v)]
        if k == "zero_struct":
            if s[1] != "lineflags":
                raise TranspileError("memset of %r" % s[1])
            return [pad + "self.lineflags_rowchar = 0"]
        if k == "if":
            pre = []
            c = self.ex(s[1], pre)
            out += [pad + p for p in pre]
            out.append(pad + "if %s:" % c)
            out += self.stmt(s[2], ind + 1, ctx)
            if s[3] is not None:
                out.append(pad + "else:")
                out += self.stmt(s[3], ind + 1, ctx)
            return out
        if k == "goto":
            return [pad + ctx["goto"](s[1])]
        if k == "while":
            pre = []
            c = self.ex(s[1], pre)
            if pre:
                raise TranspileError("side effect in a loop condition")
            out.append(pad + "while %s:" % c)
            body = self.stmt(s[2], ind + 1, ctx)
            if s[3] is not None:
                if any(l.strip() == "continue" for l in body):
                    raise TranspileError("continue inside a for loop with a step expression")
                body += self.stmt(s[3], ind + 1, ctx)
            return out + body
        if k in ("break", "continue"):
            return [pad + k]
        if k == "return":
            pre = []
            v = "None" if s[1] is None else self.ex(s[1], pre)
            return [pad + p for p in pre] + [pad + l for l in ctx["ret"](v)]
        if k == "switch":
            pre = []
            v = self.ex(s[1], pre)
            out += [pad + p for p in pre]
            first = True
            for labels, body in s[2]:
                cond = " or ".join("%s == %s" % (v, self.ex(l, [])) for l in labels)
                out.append(pad + ("if " if first else "elif ") + cond + ":")
                out += self.stmt(body, ind + 1, ctx)
                first = False
            if s[3] is not None:
                out.append(pad + ("else:" if not first else "if True:"))
                out += self.stmt(s[3], ind + 1, ctx)
            return out
        if k == "label":
            raise TranspileError("label %r inside a nested statement" % s[1])
        raise TranspileError("unsupported statement %r" % (k,))


def _match_brace(src, i):
    depth = 0
    j = i
    while j < len(src):
        if src[j] == "{":
            depth += 1
        elif src[j] == "}":
            depth -= 1
            if depth == 0:
                return j
        elif src[j] == "'" :
            j += 3 if src[j + 1] != "\\" else 4
            continue
        j += 1
    raise TranspileError("unbalanced braces")


def _has_label(items):
    return any(x[0] == "label" or (x[0] == "block" and _has_label(x[1])) for x in items)


def _flatten(items):
    out = []
    for x in items:
        if x[0] == "block" and _has_label(x[1]):
            out += _flatten(x[1])
        else:
            out.append(x)
    return out


def transpile(cc_source):
    """returns Python source defining Tok, Scanner (with scan()) and scan_text(text)"""
    src = cc_source
    # ---- enum
    m = re.search(r"typedef\s+enum\s*\{(.*?)\}\s*mwtok\s*;", src, re.S)
    if not m:
        raise TranspileError("mwtok enum not found")
    names = [x for x in re.sub(r"//[^\n]*", "", m.group(1)).replace("\n", " ").split(",") if x.strip()]
    enum = {}
    val = 0
    for n in names:
        n = n.strip()
        if "=" in n:
            n, v = n.split("=")
            val = int(v.strip(), 0)
            n = n.strip()
        enum[n] = val
        val += 1
    # ---- defines used inside scan()
    defines = {}
    for dm in re.finditer(r"^\s*#define\s+(YY\w+)\s+(.+?)\s*$", src, re.M):
        defines[dm.group(1)] = dm.group(2)
    # ---- class Scanner
    cm = re.search(r"class\s+Scanner\s*\{", src)
    if not cm:
        raise TranspileError("class Scanner not found")
    cend = _match_brace(src, cm.end() - 1)
    cbody = src[cm.end():cend]
    members, pointers = set(), set()
    # member declarations (after the methods): "Py_UCS4 *source;" "vector <Token> tokens;" "bool last_ebad;" "int tablemode;" struct lineflags
    for mm in re.finditer(r"^\s*(Py_UCS4|int|bool)\s*(\*?)\s*(\w+)\s*;", cbody, re.M):
        members.add(mm.group(3))
        if mm.group(2):
            pointers.add(mm.group(3))
    if not re.search(r"vector\s*<\s*Token\s*>\s*tokens\s*;", cbody):
        raise TranspileError("vector<Token> tokens member not found")
    members.add("tokens")
    lf = re.search(r"struct\s*\{\s*Py_UCS4\s+(\w+)\s*;\s*\}\s*lineflags\s*;", cbody)
    if not lf or lf.group(1) != "rowchar":
        raise TranspileError("lineflags struct changed")
    members.add("lineflags")
    out = ["# generated from _uscan.cc by vlib/re2c_transpile.py - do not edit", "", "",
           "class ReadOutOfBounds(Exception):", "    pass", "", "",
           "class Tok:", "    __slots__ = ('type', 'start', 'len')", "",
           "    def __init__(self):", "        self.type = 0", "        self.start = 0", "        self.len = 0", "", "",
           "ENUM = %r" % enum, "", "",
           "class Scanner:"]
    # constructor
    km = re.search(r"Scanner\s*\(\s*Py_UCS4\s*\*\s*(\w+)\s*,\s*Py_UCS4\s*\*\s*(\w+)\s*\)\s*\{", cbody)
    if not km:
        raise TranspileError("Scanner constructor not found")
    kend = _match_brace(cbody, km.end() - 1)
    g = Gen(pointers, members, enum, False)
    p = P(tokenize(cbody[km.end():kend]), defines, pointers, members, enum)
    items = p.block_items()
    out.append("    def __init__(self, buf, %s, %s):" % (km.group(1), km.group(2)))
    out.append("        self.buf = buf")
    out.append("        self.max_read = -1")
    out.append("        self.tokens = []")
    out.append("        self.lineflags_rowchar = 0")
    for it in items:
        out += g.stmt(it, 2, {})
    out += ["", "    def rd(self, i):", "        if i < 0 or i >= len(self.buf):", "            raise ReadOutOfBounds(i)",
            "        if i > self.max_read:", "            self.max_read = i", "        return self.buf[i]", ""]
    # helper methods
    for hm in re.finditer(r"(int|bool|void)\s+(found|bol|eol|newline)\s*\(([^)]*)\)\s*(const)?\s*\{", cbody):
        hend = _match_brace(cbody, hm.end() - 1)
        params = [x.split()[-1] for x in hm.group(3).split(",") if x.strip()]
        g = Gen(pointers, members, enum, False)
        p = P(tokenize(cbody[hm.end():hend]), defines, pointers, members, enum)
        items = p.block_items()
        out.append("    def %s(self%s):" % (hm.group(2), "".join(", " + x for x in params)))
        body = []
        for it in items:
            body += g.stmt(it, 2, {"ret": lambda v: ["return " + v], "goto": None})
        out += body or ["        pass"]
        out.append("")
    for need in ("found", "bol", "eol", "newline"):
        if ("    def %s(self" % need) not in "\n".join(out):
            raise TranspileError("helper %s() not found in class Scanner" % need)
    # ---- scan()
    sm = re.search(r"int\s+Scanner::scan\s*\(\s*\)\s*\{", src)
    if not sm:
        raise TranspileError("Scanner::scan not found")
    send = _match_brace(src, sm.end() - 1)
    p = P(tokenize(src[sm.end():send]), defines, pointers, members, enum)
    items = _flatten(p.block_items())
    # split into segments at labels
    segs = [("__entry__", [])]
    for it in items:
        if it[0] == "label":
            segs.append((it[1], []))
        else:
            segs[-1][1].append(it)
    index = {name: i for i, (name, _) in enumerate(segs)}
    if len(index) != len(segs):
        raise TranspileError("duplicate label")
    g = Gen(p.pointers, members, enum, True)

    def goto(label):
        if label not in index:
            raise TranspileError("goto to unknown label %r" % label)
        return "return %d" % index[label]

    ctx = {"goto": goto, "ret": lambda v: ["self._ret = %s" % v, "return -1"]}
    block_fns = []
    for i, (name, stmts) in enumerate(segs):
        out.append("    def _b%d(self):  # %s" % (i, name))
        body = []
        for s in stmts:
            body += g.stmt(s, 2, ctx)
        body.append("        return %d" % (i + 1) if i + 1 < len(segs) else "        raise AssertionError('fell off the end of scan()')")
        out += body
        out.append("")
        block_fns.append("_b%d" % i)
    out.append("    def scan(self):")
    for ln in sorted(g.local_names):
        out.append("        self.l_%s = 0" % ln)
    out += ["        blocks = self._BLOCKS", "        pc = 0", "        steps = 0", "        while pc >= 0:",
            "            pc = blocks[pc](self)", "            steps += 1", "            if steps > 100000:",
            "                raise AssertionError('scan() does not terminate')", "        return self._ret", "",
            "    _BLOCKS = [%s]" % ", ".join(block_fns), "", "",
            "def scan_text(text):",
            "    \"\"\"what py_scan does: scan() until it returns 0; returns [(type, start, len)] and the highest index read\"\"\"",
            "    buf = [ord(c) for c in text]",
            "    s = Scanner(buf, 0, len(buf))",
            "    guard = 0",
            "    while s.scan():",
            "        guard += 1",
            "        if guard > len(buf) + 5:",
            "            raise AssertionError('scanner makes no progress')",
            "    return [(t.type, t.start, t.len) for t in s.tokens], s.max_read", ""]
    return "\n".join(out)


def load(cc_path):
    with open(cc_path, encoding="utf-8") as fh:
        src = fh.read()
    py = transpile(src)
    ns = {"__name__": "uscan_transpiled"}
    exec(compile(py, cc_path + " (transpiled)", "exec"), ns)
    ns["__source__"] = py
    return ns
