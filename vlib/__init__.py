"""Verification library for solver-based checking of pediapress/mwlib (see /verif/DESIGN.md)."""
