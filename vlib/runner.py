"""Common driver of every check:  python -m vlib.runner <ID> [--tier quick|thorough] [--replay FILE]

Exit codes: 0 = held on everything explored (maybe with KNOWN-FINDING / INCONCLUSIVE lines),
            1 = replayed violation that known_findings.json does not list,
            3 = harness error (stub target moved, vacuity twin failed, replay mismatch, engine crash).
"""
from __future__ import annotations

import argparse
import hashlib
import importlib
import inspect
import json
import multiprocessing as mp
import os
import subprocess
import sys
import time
import traceback
from dataclasses import dataclass, field
from typing import Any, Callable, Dict, List, Optional

VERIF = os.path.dirname(os.path.dirname(os.path.abspath(__file__)))
REPO = os.environ.get("VERIF_REPO", "/repo")
PLAIN_PY = "/venv/bin/python"

HARNESS = {
    "C01": "harness.c01_parse_kernels",
    "C03": "harness.c03_magics",
    "C04": "harness.c04_semantics",
    "C05": "harness.c05_tree",
    "C06": "harness.c06_passes",
    "C07": "harness.c07_lossless",
    "C10": "harness.c10_scanner",
    "C11": "harness.c11_fetch_kernels",
    "C12": "harness.c12_titles",
    "C13": "harness.c13_metabook",
    "C14": "harness.c14_archive",
    "C15": "harness.c15_extract",
    "C16": "harness.c16_queue",
    "C17": "harness.c17_queue_order",
    "C18": "harness.c18_queue_restore",
    "C19": "harness.c19_status",
    "C20": "harness.c20_atomic",
}


@dataclass
class Cube:
    """One symbolic exploration: fn(**symbolic params, **fixed)."""

    name: str
    fn: Callable[..., Any]
    params: Dict[str, type]
    fixed: Dict[str, Any] = field(default_factory=dict)
    timeout: float = 60.0  # CPU seconds for the path search
    per_path_timeout: float = 20.0
    role: str = "check"  # "check" | "twin" (reachability witness: must be refuted)
    group: str = ""  # evidence grouping (e.g. the pass / site / kernel name)
    allow_empty: bool = False  # the cube fixes a prefix of choices that may be infeasible (nothing to explore is then fine)
    max_paths: int = 10**9
    budget_cut: bool = False  # set by the runner when the check's wall budget shortened this cube's timeout


@dataclass
class CheckSpec:
    property_id: str
    level: str
    cubes: List[Cube]
    functions: List[Any]  # callables / (module, qualname) whose source is encoded
    bounds: Dict[str, Any]
    stubs: List[str]
    assumptions: List[str]
    outside: List[str]
    explanation: str
    # replay(candidate dict) -> {"reproduced": bool, "signature": str, "what": str, ...}; run in plain /venv python
    replay: Optional[Callable[[dict], dict]] = None
    # concrete(fn_name, args) -> violation or None; in-process re-execution of the harness on the model
    setup: Optional[Callable[[], None]] = None  # install stubs in the worker before exploring
    extra: Dict[str, Any] = field(default_factory=dict)


# ----------------------------------------------------------------------------- workers


def _cube_worker(spec: "CheckSpec", cube: "Cube", seed: int, conn) -> None:
    try:
        from vlib import ch_driver

        if spec.setup:
            spec.setup()
        res = ch_driver.explore(
            cube.fn,
            cube.params,
            name=cube.name,
            fixed=cube.fixed,
            timeout=cube.timeout,
            per_path_timeout=cube.per_path_timeout,
            max_paths=cube.max_paths,
            seed=seed,
            stop_on_violation=(cube.role == "twin"),
        )
        out = res.as_dict()
        # stage 1: concrete re-execution of the harness on each model (filters engine-model artefacts)
        for v in out["violations"]:
            v["concrete"] = _concrete_rerun(cube, v)
        conn.send(out)
    except BaseException as e:  # noqa
        conn.send({"name": cube.name, "error": f"{type(e).__name__}: {e}\n{traceback.format_exc()[-3000:]}"})
    finally:
        conn.close()


def _concrete_rerun(cube: Cube, v: dict) -> dict:
    """Run the harness function on the realized model in plain Python (no tracing)."""
    from vlib.sym import IgnoreAttempt

    args = dict(v.get("args") or {})
    try:
        kwargs = {k: args[k] for k in list(cube.params) + list(cube.fixed)}
    except KeyError as e:
        return {"reproduced": False, "why": f"model lacks {e}"}
    try:
        r = cube.fn(**kwargs)
    except IgnoreAttempt:
        return {"reproduced": False, "why": "model violates the harness precondition"}
    except Exception as e:  # same convention as explore(): escaped Exception == candidate
        return {"reproduced": True, "detail": f"{type(e).__name__}: {e}"[:500], "exc_type": type(e).__name__}
    if r is None:
        return {"reproduced": False, "why": "harness holds on the concrete model"}
    return {"reproduced": True, "detail": _jsonable(r)}


def _jsonable(v):
    try:
        json.dumps(v)
        return v
    except Exception:
        return repr(v)


def run_cubes(modname: str, tier: str, spec: CheckSpec, seed: int, nproc: int, budget: float = 0.0) -> List[dict]:
    """budget > 0: wall-clock budget for the whole check.  Each cube gets, when it starts, at most its fair share of
    what is left (remaining wall time x workers / cubes not yet started); cubes that exhaust early leave their share to
    the later ones.  A cube cut short this way is reported as not exhausted (bounded search), never as confirmed."""
    import dataclasses

    ctx = mp.get_context("fork")
    pending = list(range(len(spec.cubes)))
    # longest first
    pending.sort(key=lambda i: -spec.cubes[i].timeout)
    running: Dict[int, Any] = {}
    results: Dict[int, dict] = {}
    t_start = time.time()
    while pending or running:
        while pending and len(running) < nproc:
            i = pending.pop(0)
            if budget > 0:
                left = max(0.0, budget - (time.time() - t_start))
                share = max(5.0, min(left, left * nproc / (len(pending) + 1)))  # one cube = one core: never more than the wall time left
                if share < spec.cubes[i].timeout:
                    spec.cubes[i] = dataclasses.replace(spec.cubes[i], timeout=round(share, 1))
                    spec.cubes[i].budget_cut = True
            pc, cc = ctx.Pipe(duplex=False)
            p = ctx.Process(target=_cube_worker, args=(spec, spec.cubes[i], seed, cc), daemon=True)
            p.start()
            cc.close()
            running[i] = (p, pc, time.time())
        time.sleep(0.05)
        for i, (p, pc, t0) in list(running.items()):
            cube = spec.cubes[i]
            hard = cube.timeout * 2 + 4 * cube.per_path_timeout + 60
            if pc.poll():
                try:
                    results[i] = pc.recv()
                except EOFError:
                    results[i] = {"name": cube.name, "error": "worker died without a result"}
                p.join(5)
                if p.is_alive():
                    p.kill()
                del running[i]
            elif not p.is_alive():
                results[i] = {"name": cube.name, "error": f"worker exited with {p.exitcode} and no result"}
                del running[i]
            elif time.time() - t0 > hard:
                p.kill()
                results[i] = {"name": cube.name, "killed": True, "error": None, "paths": 0, "held": 0,
                              "ignored": 0, "unknown": 1, "exhausted": False, "violations": [], "samples": [],
                              "solver_checks": 0, "solver_seconds": 0.0, "solver_unknown": 0,
                              "wall_s": round(time.time() - t0, 1), "cpu_s": 0.0, "confirmed": False,
                              "stop_reason": "killed after hard wall limit", "unknown_reasons": {"killed": 1}}
                del running[i]
    return [results[i] for i in range(len(spec.cubes))]


# ----------------------------------------------------------------------------- helpers


def src_fingerprint(fns: List[Any]) -> List[dict]:
    out = []
    for f in fns:
        try:
            if isinstance(f, (tuple, list)):
                path, what = f
                with open(path, "rb") as fh:
                    data = fh.read()
                out.append({"function": what, "file": path, "sha256": hashlib.sha256(data).hexdigest()[:16]})
                continue
            src = inspect.getsource(f)
            out.append(
                {
                    "function": getattr(f, "__module__", "?") + "." + getattr(f, "__qualname__", repr(f)),
                    "file": inspect.getsourcefile(f),
                    "sha256": hashlib.sha256(src.encode()).hexdigest()[:16],
                }
            )
        except Exception as e:
            out.append({"function": repr(f), "error": str(e)})
    return out


def load_known() -> dict:
    p = os.path.join(VERIF, "known_findings.json")
    if not os.path.exists(p):
        return {"findings": [], "fixed": []}
    with open(p) as fh:
        return json.load(fh)


def replay_in_plain_python(modname: str, cand: dict, timeout: float = 120.0) -> dict:
    """Replay a candidate on the real code in a fresh /venv python (no CrossHair, no engine overrides)."""
    os.makedirs(os.path.join(VERIF, "replays"), exist_ok=True)
    env = dict(os.environ)
    env["PYTHONPATH"] = VERIF + os.pathsep + env.get("PYTHONPATH", "")
    env.pop("VERIF_SYMBOLIC", None)
    try:
        p = subprocess.run(
            [PLAIN_PY, "-m", "vlib.replay", modname, "-"],
            input=json.dumps(cand), capture_output=True, text=True, timeout=timeout, env=env, cwd=VERIF,
        )
    except subprocess.TimeoutExpired:
        return {"reproduced": False, "error": "replay timed out"}
    last = [l for l in p.stdout.splitlines() if l.startswith("REPLAY-RESULT ")]
    if not last:
        return {"reproduced": False, "error": "replay crashed: " + (p.stderr or p.stdout)[-1500:]}
    return json.loads(last[-1][len("REPLAY-RESULT "):])


# ----------------------------------------------------------------------------- main


def main(argv=None) -> int:
    ap = argparse.ArgumentParser()
    ap.add_argument("prop")
    ap.add_argument("--tier", default=os.environ.get("VERIF_TIER", "quick"), choices=["quick", "thorough"])
    ap.add_argument("--replay", default=None)
    ap.add_argument("--jobs", type=int, default=int(os.environ.get("VERIF_JOBS", "16")))
    ap.add_argument("--only", default=None, help="substring filter on cube names (debugging; evidence not written)")
    ap.add_argument("--budget", type=float, default=None,
                    help="wall-clock budget in seconds for the cube phase (default: none for quick, $VERIF_BUDGET or 900 for thorough)")
    a = ap.parse_args(argv)
    pid = a.prop.upper()
    if pid not in HARNESS:
        print(f"unknown or unclaimed property {pid}")
        return 3
    modname = HARNESS[pid]
    seed = int(os.environ.get("VERIF_SEED", "0") or 0)
    sys.path.insert(0, VERIF)
    t0 = time.time()

    if a.replay:
        with open(a.replay) as fh:
            cand = json.load(fh)
        r = replay_in_plain_python(modname, cand)
        print(json.dumps(r, indent=1))
        if r.get("reproduced"):
            print(f"VIOLATION property={pid} replay={a.replay}")
            return 1
        return 0

    try:
        mod = importlib.import_module(modname)
        spec: CheckSpec = mod.build(a.tier)
    except Exception:
        print(f"HARNESS-ERROR property={pid} cannot build harness (stub target moved or import failed):")
        traceback.print_exc()
        return 3
    if a.only:
        keep = [i for i, c in enumerate(spec.cubes) if a.only in c.name]
        spec.cubes[:] = [spec.cubes[i] for i in keep]
    budget = a.budget if a.budget is not None else (float(os.environ.get("VERIF_BUDGET", "900")) if a.tier == "thorough" else 0.0)
    results = run_cubes(modname, a.tier, spec, seed, a.jobs, budget)

    known = load_known()
    known_sigs = {(k["property"], k["signature"]): k for k in known.get("findings", [])}

    harness_errors: List[str] = []
    inconclusive: List[str] = []
    violations: List[dict] = []
    known_hits: Dict[str, dict] = {}
    spurious = 0
    replays_done = 0
    twin_results = []
    seen_replay: Dict[str, dict] = {}
    class_count: Dict[str, int] = {}
    class_repro: Dict[str, int] = {}
    empty_by_group: Dict[str, List[str]] = {}
    skipped_same_class = 0

    for cube, r in zip(spec.cubes, results):
        if r.get("error"):
            harness_errors.append(f"{cube.name}: {r['error']}")
            continue
        if cube.role == "twin":
            reached = any(v.get("concrete", {}).get("reproduced") for v in r["violations"])
            twin_results.append({"twin": cube.name, "reached": bool(reached), "paths": r["paths"]})
            if not reached:
                harness_errors.append(
                    f"reachability twin {cube.name} was not refuted (paths={r['paths']}, stop={r['stop_reason']}): "
                    "the harness may be vacuous"
                )
            continue
        for v in r["violations"]:
            if not v.get("concrete", {}).get("reproduced"):
                spurious += 1
                r["unknown"] = r.get("unknown", 0) + 1
                r["confirmed"] = False
                continue
            # candidates of one class (same group, same pre-signature) are replayed at most 3 times
            presig = json.dumps([cube.group, v.get("kind"), v.get("exc_type"), v.get("where"),
                                 (v.get("detail") or {}).get("sig") if isinstance(v.get("detail"), dict) else None], default=str)
            # candidates of one class are replayed until 3 have reproduced (at most 12 replays per class)
            class_count[presig] = class_count.get(presig, 0) + 1
            if class_repro.get(presig, 0) >= 3 or class_count[presig] > 12:
                skipped_same_class += 1
                continue
            cand = {"property": pid, "cube": cube.name, "fn": cube.fn.__name__, "group": cube.group,
                    "args": v["args"], "detail": v.get("detail"), "kind": v.get("kind"),
                    "concrete": v.get("concrete"), "trace": v.get("trace")}
            key = json.dumps([cube.fn.__name__, cube.group, v["args"]], sort_keys=True, default=str)
            if key in seen_replay:
                rep = seen_replay[key]
            else:
                rep = replay_in_plain_python(modname, cand) if spec.replay else {"reproduced": False, "error": "no replay defined"}
                seen_replay[key] = rep
                replays_done += 1
            cand["replay"] = rep
            if rep.get("error"):
                harness_errors.append(f"{cube.name}: replay failed: {rep['error']}")
            elif not rep.get("reproduced"):
                if rep.get("not_liftable"):
                    # reproduces on the kernel, but no input of the public API reaches it: not a violation
                    cand["status"] = "not-liftable"
                    inconclusive.append(f"{cube.name}: kernel-level counterexample not reachable through the public API: {rep.get('what')}")
                else:
                    harness_errors.append(
                        f"{cube.name}: counterexample did not reproduce on the real code (stub/engine mismatch): "
                        f"{json.dumps(v['args'], default=str)[:300]} -> {rep.get('what')}"
                    )
            else:
                class_repro[presig] = class_repro.get(presig, 0) + 1
                sig = rep.get("signature", "?")
                cand["signature"] = sig
                if (pid, sig) in known_sigs:
                    known_hits.setdefault(sig, {"signature": sig, "what": known_sigs[(pid, sig)].get("what", ""), "count": 0, "example": cand["args"]})
                    known_hits[sig]["count"] += 1
                else:
                    violations.append(cand)
        if r["held"] + r.get("violating_paths", 0) == 0 and not r["exhausted"]:
            inconclusive.append(f"{cube.name}: no path completed within the budget (paths={r['paths']}, ignored={r['ignored']}, "
                                f"unknown={r['unknown']}, stop={r['stop_reason']}): nothing decided")
            r["confirmed"] = False
            continue
        if r["held"] + r.get("violating_paths", 0) == 0 and cube.allow_empty:
            empty_by_group.setdefault(cube.group, []).append(cube.name)
            r["confirmed"] = True  # infeasible prefix: exhausted, nothing to decide
            continue
        if r["held"] + r.get("violating_paths", 0) == 0:
            harness_errors.append(f"{cube.name}: no path reached the oracle (paths={r['paths']}, ignored={r['ignored']}, "
                                  f"unknown={r['unknown']}): the cube is vacuous")
            r["confirmed"] = False
            continue
        nsp = sum(1 for v in r["violations"] if not v.get("concrete", {}).get("reproduced"))
        if nsp:
            inconclusive.append(f"{cube.name}: {nsp} solver model(s) did not reproduce when the harness was re-run concretely "
                                f"(engine-model artefact; those paths are undecided): e.g. {json.dumps(r['violations'][0].get('args'), default=str)[:200]}")
        if not r.get("confirmed") and not r["violations"]:
            inconclusive.append(
                f"{cube.name}: not exhausted (paths={r['paths']}, unknown={r['unknown']}, stop={r['stop_reason']}, {r.get('unknown_reasons')})"
            )

    # a whole group of prefix-sharded cubes without a single path reaching the oracle is vacuous
    for grp, names in empty_by_group.items():
        members = [(c, r) for c, r in zip(spec.cubes, results) if c.group == grp and c.role == "check" and not r.get("error")]
        if members and all(r["held"] + r.get("violating_paths", 0) == 0 for _, r in members):
            harness_errors.append(f"group {grp!r}: none of its {len(members)} cubes reached the oracle: vacuous")

    # ---- evidence
    checks = [(c, r) for c, r in zip(spec.cubes, results) if c.role == "check" and not r.get("error")]
    total_paths = sum(r["paths"] for _, r in checks)
    reached = sum(r["held"] + r.get("violating_paths", len(r["violations"])) for _, r in checks)
    samples = []
    for c, r in checks:
        for s in r["samples"][:2]:
            samples.append({"cube": c.name, "input": s})
        if len(samples) >= 24:
            break
    all_confirmed = bool(checks) and all(r.get("confirmed") for _, r in checks) and not harness_errors
    replay_paths = []
    for n, v in enumerate(violations):
        path = os.path.join(VERIF, "replays", f"{pid}-{n}.json")
        os.makedirs(os.path.dirname(path), exist_ok=True)
        with open(path, "w") as fh:
            json.dump(v, fh, indent=1, default=str)
        replay_paths.append(path)
    wall = round(time.time() - t0, 2)
    evidence = {
        "property_id": pid,
        "tier": a.tier,
        "seed": seed,
        "level": spec.level,
        "coverage": {
            "evaluations": max(total_paths, 1),
            "distinct_nontrivial": reached,
            "rule": "one evaluation = one path of CrossHair's decision tree (a distinct sequence of branch decisions, "
            "decided satisfiable by z3, standing for every input that takes it); non-trivial = the path satisfied the "
            "harness preconditions and reached the oracle (paths discarded by assume() are not counted)",
            "samples": samples or [{"note": "no path reached the oracle"}],
            "exhaustive": all_confirmed,
            "explanation": spec.explanation,
            "functions_encoded": src_fingerprint(spec.functions),
            "bounds": spec.bounds,
            "outside_the_claim": spec.outside,
            "stubs": spec.stubs,
            "engine": "CrossHair 0.0.110 path exploration + z3 " + _z3v(),
            "engine_overrides": _overrides(),
            "solver_queries": sum(r.get("solver_checks", 0) for _, r in checks),
            "solver_seconds": round(sum(r.get("solver_seconds", 0.0) for _, r in checks), 2),
            "solver_unknown": sum(r.get("solver_unknown", 0) for _, r in checks),
            "cubes": [
                {"cube": c.name, "group": c.group, "paths": r["paths"], "held": r["held"], "ignored": r["ignored"],
                 "unknown": r["unknown"], "exhausted": r["exhausted"], "confirmed": r.get("confirmed", False),
                 "candidates": len(r["violations"]), "cpu_s": r["cpu_s"], "stop": r["stop_reason"],
                 "timeout_cpu_s": c.timeout, "cut_by_wall_budget": c.budget_cut}
                for c, r in checks
            ],
            "wall_budget_s": budget or None,
            "cubes_total": len(checks),
            "cubes_confirmed": sum(1 for _, r in checks if r.get("confirmed")),
            "reachability_twins": twin_results,
            "spurious_models_filtered": spurious,
            "infeasible_prefix_cubes": sum(len(v) for v in empty_by_group.values()),
            "counterexamples_replayed": replays_done,
            "candidates_not_replayed_same_class": skipped_same_class,
            "known_findings_matched": list(known_hits.values()),
            "violations": [{"signature": v.get("signature"), "args": v["args"], "what": v["replay"].get("what")} for v in violations],
            "inconclusive": inconclusive[:50],
            "harness_errors": harness_errors[:20],
        },
        "assumptions": spec.assumptions,
        "wall_s": wall,
        "violations": len(violations),
    }
    evidence["coverage"].update(spec.extra or {})
    if not a.only:
        os.makedirs(os.path.join(VERIF, "evidence"), exist_ok=True)
        with open(os.path.join(VERIF, "evidence", f"{pid}.json"), "w") as fh:
            json.dump(evidence, fh, indent=1, default=str)
        # the same record kept per tier (evidence/<id>.json always holds the latest run of either tier)
        os.makedirs(os.path.join(VERIF, "evidence_by_tier", a.tier), exist_ok=True)
        with open(os.path.join(VERIF, "evidence_by_tier", a.tier, f"{pid}.json"), "w") as fh:
            json.dump(evidence, fh, indent=1, default=str)

    # ---- verdict
    print(f"[{pid}] tier={a.tier} cubes={len(checks)} confirmed={evidence['coverage']['cubes_confirmed']} "
          f"paths={total_paths} reached_oracle={reached} solver_queries={evidence['coverage']['solver_queries']} "
          f"solver_s={evidence['coverage']['solver_seconds']} wall={wall}s")
    for k in known_hits.values():
        print(f"KNOWN-FINDING: property={pid} {k['signature']} — {k['what']} (x{k['count']})")
    for m in inconclusive[:20]:
        print(f"INCONCLUSIVE property={pid} {m}")
    if violations:
        for v, path in zip(violations, replay_paths):
            print(f"  violation: {v.get('signature')} :: {v['replay'].get('what')}")
            print(f"VIOLATION property={pid} replay={path}")
        return 1
    if harness_errors:
        for m in harness_errors[:20]:
            print(f"HARNESS-ERROR property={pid} {m}")
        return 3
    print(f"[{pid}] held on everything explored" + ("" if all_confirmed else " (bounded search not exhausted everywhere: see INCONCLUSIVE lines)"))
    return 0


def _z3v():
    try:
        import z3

        return z3.get_version_string()
    except Exception:
        return "?"


def _overrides():
    try:
        from vlib import ch_driver

        return ch_driver.OVERRIDES
    except Exception:
        return []


if __name__ == "__main__":
    sys.exit(main())
