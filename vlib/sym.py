"""Helpers usable both under CrossHair (symbolic run) and in plain Python (concrete replay)."""

try:  # symbolic run
    from crosshair.util import IgnoreAttempt as _Ignore  # type: ignore
except Exception:  # concrete replay in /venv without crosshair

    class _Ignore(BaseException):  # type: ignore
        pass


class AssumptionFailed(BaseException):
    """Raised by assume() in concrete replays (precondition of the harness not met)."""


def assume(cond) -> None:
    """Precondition: paths on which `cond` is false are discarded (not counted as explored cases)."""
    if not cond:
        raise _Ignore()


IgnoreAttempt = _Ignore


def in_alphabet(s, alphabet) -> bool:
    """True iff every character of s is in `alphabet` (forks per character under CrossHair)."""
    for ch in s:
        if ch not in alphabet:
            return False
    return True


def pinned(value):
    """Concretize a symbolic value whose every character / digit has already been pinned by the path's
    branch decisions (e.g. after in_alphabet()).  Under CrossHair this asks z3 for the model of the current path;
    the path then stands for exactly that value.  Used where the code under test is dominated by string library
    calls (strip/replace/split/regex) that z3's sequence theory decides very slowly: the solver still enumerates
    the bounded input space exhaustively, but relational generalisation over the string is given up (stated in
    the evidence of the checks that use it).  Identity in plain Python."""
    try:
        from crosshair.core import realize
        from crosshair.tracers import is_tracing
    except Exception:
        return value
    if not is_tracing():
        return value
    return realize(value)


def choose(sym, n):
    """Concrete index in range(n) equal to the symbolic int `sym` (one path per value; other values are discarded)."""
    for i in range(n):
        if sym == i:
            return i
    assume(False)


def untraced(fn, *a, **k):
    """Run fn outside CrossHair's tracer.  Only for code whose inputs are concrete on the current path (after pinned()/
    choose()): the result is identical, the interpreter overhead of tracing is saved.  Identity in plain Python."""
    try:
        from crosshair.tracers import NoTracing, is_tracing
    except Exception:
        return fn(*a, **k)
    if not is_tracing():
        return fn(*a, **k)
    with NoTracing():
        return fn(*a, **k)
