"""Helpers usable both under CrossHair (symbolic run) and in plain Python (concrete replay)."""

try:  # symbolic run
    from crosshair.util import IgnoreAttempt as _Ignore  # type: ignore
except Exception:  # concrete replay in /venv without crosshair

    class _Ignore(BaseException):  # type: ignore
        pass


class AssumptionFailed(BaseException):
    """Raised by assume() in concrete replays (precondition of the harness not met)."""


def assume(cond) -> None:
    """Precondition: paths on which `cond` is false are discarded (not counted as explored cases)."""
    if not cond:
        raise _Ignore()


IgnoreAttempt = _Ignore


def in_alphabet(s, alphabet) -> bool:
    """True iff every character of s is in `alphabet` (forks per character under CrossHair)."""
    for ch in s:
        if ch not in alphabet:
            return False
    return True
