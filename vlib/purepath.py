"""posixpath.normpath as pure Python: the stdlib's own `except ImportError:` fallback, taken from the running
interpreter's posixpath.py source (3.12's normpath is the C function posix._path_normpath, which CrossHair
cannot trace and which realizes its argument)."""
import ast
import inspect
import os
import posixpath


def pure_normpath():
    src = inspect.getsource(posixpath)
    tree = ast.parse(src)
    for node in ast.walk(tree):
        if isinstance(node, ast.Try):
            for h in node.handlers:
                for st in h.body:
                    if isinstance(st, ast.FunctionDef) and st.name == "normpath":
                        code = compile(ast.Module(body=[st], type_ignores=[]), posixpath.__file__, "exec")
                        ns = dict(vars(posixpath))
                        exec(code, ns)
                        fn = ns["normpath"]
                        # self-test against the C implementation
                        for p in ["", "/", "//", "///a", "a/../..", "/a/./b/../c/", "../a", "a//b", "/..", "//a/.."]:
                            assert fn(p) == posixpath.normpath(p), (p, fn(p), posixpath.normpath(p))
                        return fn
    raise RuntimeError("pure-Python normpath fallback not found in posixpath.py")
