"""Load a module of the repository from its *current source* with logging statements given empty bodies.

`logger.info(f"...{obj}...")` evaluates its f-string even when the logger is a null object; formatting a symbolic
integer forks once per digit count, which multiplies paths for nothing.  Expression statements of the form
`<name containing 'log'>.<debug|info|warning|error|exception|critical|log>(...)` are replaced by `pass` before
compiling (file name and line numbers are kept).  This is the "logging gets an empty body" stub; it is listed in
the evidence of every check that uses it, and replays run the unmodified modules.
"""
import ast
import importlib.util
import sys
import types

LEVELS = {"debug", "info", "warning", "warn", "error", "exception", "critical", "log"}


class _Strip(ast.NodeTransformer):
    def __init__(self):
        self.removed = 0

    def visit_Expr(self, node):
        v = node.value
        if isinstance(v, ast.Call) and isinstance(v.func, ast.Attribute) and v.func.attr in LEVELS:
            base = v.func.value
            name = base.id if isinstance(base, ast.Name) else (base.attr if isinstance(base, ast.Attribute) else "")
            if "log" in name.lower():
                self.removed += 1
                return ast.copy_location(ast.Pass(), node)
        return node


def load_without_logging(modname: str) -> types.ModuleType:
    spec = importlib.util.find_spec(modname)
    if spec is None or not spec.origin or not spec.origin.endswith(".py"):
        raise RuntimeError(f"cannot locate python source of {modname}")
    with open(spec.origin, encoding="utf-8") as fh:
        src = fh.read()
    tree = ast.parse(src, spec.origin)
    st = _Strip()
    tree = ast.fix_missing_locations(st.visit(tree))
    mod = importlib.util.module_from_spec(spec)
    sys.modules[modname] = mod
    exec(compile(tree, spec.origin, "exec"), mod.__dict__)
    parent, _, child = modname.rpartition(".")
    if parent and parent in sys.modules:
        setattr(sys.modules[parent], child, mod)
    mod.__verif_stripped_logging__ = st.removed
    return mod
