"""Concrete replay of a counterexample on the real code:  /venv/bin/python -m vlib.replay <harness module> <file|->

Runs WITHOUT CrossHair and without engine overrides. The harness module's replay(cand) returns
{"reproduced": bool, "signature": str, "what": str, ...}.
"""
import importlib
import json
import sys
import traceback


def main():
    modname, path = sys.argv[1], sys.argv[2]
    cand = json.load(sys.stdin) if path == "-" else json.load(open(path))
    assert "crosshair" not in sys.modules
    try:
        mod = importlib.import_module(modname)
        r = mod.replay(cand)
    except Exception:
        r = {"reproduced": False, "error": "replay raised: " + traceback.format_exc()[-2000:]}
    assert "crosshair" not in sys.modules, "replay must not import crosshair"
    print("REPLAY-RESULT " + json.dumps(r, default=str))


if __name__ == "__main__":
    main()
