"""E1: CrossHair (z3) used as a library with our own path-exploration loop.

explore(fn, params, ...) runs `fn(**symbolic_args)` once per path of CrossHair's decision tree
until the tree is exhausted (verdict holds for every value inside the harness' bounds), a
budget runs out (inconclusive) or — optionally — a violation is found.

A harness function
  * states its bounds with vlib.sym.assume(...) (false => path discarded),
  * returns None when the property held on that path,
  * returns a str / dict describing the violation otherwise (symbolic parts are realized),
  * lets exceptions of the code under test escape only if "any exception is a violation" is
    what it wants to express (an escaped Exception is recorded as a violation candidate).

Nothing here decides a VIOLATION: candidates are replayed on the real code by vlib.runner.
"""
from __future__ import annotations

import inspect
import random
import sys
import os
import time
import traceback
from dataclasses import dataclass, field
from typing import Any, Callable, Dict, List, Optional

import z3  # type: ignore

import crosshair.core_and_libs  # noqa: F401  (loads every library model / opcode patch)
from crosshair import core as ch_core
from crosshair.core import ExceptionFilter, Patched, deep_realize, gen_args, realize
from crosshair.copyext import CopyMode, deepcopyext
from crosshair.libimpl import builtinslib
from crosshair.libimpl.builtinslib import AnySymbolicStr, LazyIntSymbolicStr, SymbolicInt
from crosshair.options import DEFAULT_OPTIONS, AnalysisKind
from crosshair.condition_parser import condition_parser
from crosshair.statespace import (
    CallAnalysis,
    RootNode,
    StateSpace,
    StateSpaceContext,
    VerificationStatus,
)
from crosshair.tracers import COMPOSITE_TRACER, NoTracing, ResumedTracing
from crosshair.util import (
    CrossHairValue,
    IgnoreAttempt,
    NotDeterministic,
    UnexploredPath,
)

# --------------------------------------------------------------------------- solver accounting

SOLVER_STATS = {"checks": 0, "seconds": 0.0, "unknown": 0}
_orig_check = z3.Solver.check


def _counting_check(self, *a):
    t0 = time.perf_counter()
    r = _orig_check(self, *a)
    SOLVER_STATS["checks"] += 1
    SOLVER_STATS["seconds"] += time.perf_counter() - t0
    if r == z3.unknown:
        SOLVER_STATS["unknown"] += 1
    return r


z3.Solver.check = _counting_check  # type: ignore

# --------------------------------------------------------------------------- engine overrides

OVERRIDES = [
    "format: plain objects are formatted by running their own __format__/__str__ under tracing "
    "instead of CrossHair's deep_realize (which enumerates unbounded symbolic ints field by field)",
    "repr: symbolic ints (also inside dict/list/tuple) are rendered as symbolic strings instead of being realized",
    "chr: faithful model (OverflowError outside the C int range, ValueError outside 0..0x10FFFF)",
]

_MISSING = object()


def _format(obj: object, format_spec: str = ""):
    with NoTracing():
        if isinstance(format_spec, AnySymbolicStr):
            format_spec = realize(format_spec)
        if format_spec in ("", "s") and isinstance(obj, AnySymbolicStr):
            return obj
        plain = not isinstance(obj, CrossHairValue)
        symint = isinstance(obj, SymbolicInt)
    if format_spec == "":
        if plain and type(obj) in (dict, list, tuple):
            return _sym_repr(obj)
        if plain and type(obj) not in (int, float, str, bool, bytes, type(None)):
            # user-level object: run its own formatting code symbolically
            return type(obj).__format__(obj, "")
        if symint:
            return obj.__str__()
    with NoTracing():
        obj = deep_realize(obj)
    return format(obj, format_spec)


def _sym_repr(obj: object):
    """repr() that keeps symbolic ints symbolic, also inside built-in containers (log messages)."""
    with NoTracing():
        symint = isinstance(obj, SymbolicInt)
        t = type(obj)
        kind = None
        if not isinstance(obj, CrossHairValue):
            if t is dict:
                kind = "dict"
            elif t in (list, tuple):
                kind = "seq"
    if symint:
        return obj.__str__()
    if kind == "dict":
        return "{" + ", ".join([_sym_repr(k) + ": " + _sym_repr(v) for k, v in obj.items()]) + "}"  # type: ignore
    if kind == "seq":
        inner = ", ".join([_sym_repr(x) for x in obj])  # type: ignore
        if t is list:
            return "[" + inner + "]"
        return "(" + inner + ("," if len(obj) == 1 else "") + ")"  # type: ignore
    return _orig_repr_patch(obj)


_orig_repr_patch = builtinslib._repr


def _chr(i: int):
    # CPython: chr() takes a C int first (OverflowError), then range-checks (ValueError)
    if i < -(2**31) or i > 2**31 - 1:
        raise OverflowError("Python int too large to convert to C int")
    if i < 0 or i > 0x10FFFF:
        raise ValueError("chr() arg not in range(0x110000)")
    with NoTracing():
        if isinstance(i, SymbolicInt):
            return LazyIntSymbolicStr([i])
    return chr(realize(i))


def install_overrides() -> None:
    ch_core._PATCH_REGISTRATIONS[format] = _format
    ch_core._PATCH_REGISTRATIONS[chr] = _chr
    ch_core._PATCH_REGISTRATIONS[repr] = _sym_repr


install_overrides()

# --------------------------------------------------------------------------- exploration


@dataclass
class ExploreResult:
    name: str
    paths: int = 0  # iterations started
    held: int = 0  # paths that reached the oracle and passed
    ignored: int = 0  # paths discarded by assume()
    unknown: int = 0  # path timeout / solver unknown / unsupported -> not decided
    exhausted: bool = False
    violations: List[dict] = field(default_factory=list)
    violating_paths: int = 0
    violation_classes: Dict[str, int] = field(default_factory=dict)
    samples: List[dict] = field(default_factory=list)
    solver_checks: int = 0
    solver_seconds: float = 0.0
    solver_unknown: int = 0
    wall_s: float = 0.0
    cpu_s: float = 0.0
    stop_reason: str = ""
    unknown_reasons: Dict[str, int] = field(default_factory=dict)
    error: Optional[str] = None

    @property
    def confirmed(self) -> bool:
        return self.exhausted and not self.violations and self.unknown == 0 and self.error is None

    def as_dict(self) -> dict:
        d = dict(self.__dict__)
        d["confirmed"] = self.confirmed
        return d


def _plain(v: Any) -> Any:
    """JSON-able rendering of a realized value."""
    if isinstance(v, (str, int, bool, type(None))):
        return v
    if isinstance(v, float):
        return v
    if isinstance(v, (list, tuple)):
        return [_plain(x) for x in v]
    if isinstance(v, dict):
        return {str(k): _plain(x) for k, x in v.items()}
    return repr(v)


def explore(
    fn: Callable[..., Any],
    params: Dict[str, type],
    *,
    name: Optional[str] = None,
    fixed: Optional[Dict[str, Any]] = None,
    timeout: float = 60.0,
    per_path_timeout: float = 20.0,
    max_paths: int = 10**9,
    max_violations: int = 10,
    sample_limit: int = 6,
    seed: int = 0,
    stop_on_violation: bool = False,
) -> ExploreResult:
    """Symbolically execute fn over `params` (name -> type); `fixed` args are passed concretely."""
    fixed = dict(fixed or {})
    res = ExploreResult(name=name or fn.__name__)
    sig = inspect.Signature(
        [
            inspect.Parameter(p, inspect.Parameter.POSITIONAL_OR_KEYWORD, annotation=t)
            for p, t in params.items()
        ]
    )
    root = RootNode()
    if seed:
        root._random = random.Random(seed)
    s0 = dict(SOLVER_STATS)
    wall0 = time.perf_counter()
    cpu0 = time.process_time()
    deadline = cpu0 + timeout
    try:
        for i in range(1, max_paths + 1):
            itr_start = time.process_time()
            if itr_start > deadline:
                res.stop_reason = "timeout"
                break
            res.paths += 1
            space = StateSpace(
                execution_deadline=itr_start + per_path_timeout,
                model_check_timeout=per_path_timeout / 2,
                search_root=root,
            )
            status: Optional[VerificationStatus]
            with condition_parser([AnalysisKind.asserts]), Patched(), COMPOSITE_TRACER, NoTracing(), StateSpaceContext(
                space
            ):
                try:
                    pre_args = gen_args(sig)
                    args = deepcopyext(pre_args, CopyMode.REGULAR, {})
                    ret: Any = None
                    with ExceptionFilter() as efilter, ResumedTracing():
                        ret = fn(**args.arguments, **fixed)
                    if efilter.ignore:
                        raise IgnoreAttempt()
                    violation = None
                    if efilter.user_exc is not None:
                        exc, stack = efilter.user_exc
                        if isinstance(exc, NotDeterministic):
                            raise exc
                        violation = {
                            "kind": "exception",
                            "exc_type": type(exc).__name__,
                            "detail": (type(exc).__name__ + ": " + str(exc))[:500],
                            "trace": [f"{f.filename}:{f.lineno}:{f.name}" for f in list(stack)[-6:]],
                            "where": next((f"{f.filename}:{f.name}" for f in reversed(list(stack))
                                           if "/src/mwlib/" in (f.filename or "") or "/src/qs/" in (f.filename or "")), None),
                        }
                    elif ret is not None:
                        with ResumedTracing():
                            space.detach_path()
                        violation = {"kind": "oracle", "detail": _plain(deep_realize(ret))}
                    need_model = violation is not None or len(res.samples) < sample_limit
                    model = None
                    if need_model:
                        if violation is not None and violation["kind"] == "exception":
                            with ResumedTracing():
                                space.detach_path()
                        model = _plain(deep_realize(dict(pre_args.arguments)))
                        model.update({k: _plain(v) for k, v in fixed.items()})
                    if violation is not None:
                        violation["args"] = model
                        d = violation.get("detail")
                        cls = (violation["kind"], violation.get("exc_type"), violation.get("where"),
                               str(d.get("sig")) if isinstance(d, dict) else None)
                        res.violation_classes[str(cls)] = res.violation_classes.get(str(cls), 0) + 1
                        if res.violation_classes[str(cls)] <= max_violations and len(res.violations) < 200:
                            res.violations.append(violation)
                        res.violating_paths += 1
                        status = VerificationStatus.REFUTED
                    else:
                        res.held += 1
                        if model is not None:
                            res.samples.append(model)
                        status = VerificationStatus.CONFIRMED
                except IgnoreAttempt:
                    res.ignored += 1
                    status = None
                except UnexploredPath as e:
                    res.unknown += 1
                    key = type(e).__name__
                    if os.environ.get("VERIF_DEBUG_UNKNOWN") and res.unknown_reasons.get(key, 0) < 2:
                        traceback.print_exc()
                    res.unknown_reasons[key] = res.unknown_reasons.get(key, 0) + 1
                    status = VerificationStatus.UNKNOWN
                _analysis, exhausted = space.bubble_status(CallAnalysis(status))
            if status == VerificationStatus.REFUTED and stop_on_violation:
                res.stop_reason = "violation"
                break
            if exhausted:
                res.exhausted = True
                res.stop_reason = "exhausted"
                break
        else:
            res.stop_reason = "max_paths"
    except NotDeterministic:
        res.error = "NotDeterministic: " + traceback.format_exc()[-1500:]
    except BaseException as e:  # engine-level failure: harness error, never a verdict
        if isinstance(e, (KeyboardInterrupt, SystemExit)):
            raise
        res.error = f"{type(e).__name__}: {e}\n" + traceback.format_exc()[-2500:]
    res.wall_s = round(time.perf_counter() - wall0, 3)
    res.cpu_s = round(time.process_time() - cpu0, 3)
    res.solver_checks = SOLVER_STATS["checks"] - s0["checks"]
    res.solver_seconds = round(SOLVER_STATS["seconds"] - s0["seconds"], 3)
    res.solver_unknown = SOLVER_STATS["unknown"] - s0["unknown"]
    return res
