#!/bin/sh
# Builds the overlay venv /verif/.venv = /venv (repo deps) + crosshair-tool/z3 from the offline wheelhouse.
# Idempotent; offline only.
set -e
cd "$(dirname "$0")"
V=/verif/.venv
if [ ! -x "$V/bin/python" ] || ! "$V/bin/python" -c "import crosshair, z3, greenlet, mwlib" >/dev/null 2>&1; then
  rm -rf "$V"
  /venv/bin/python -m venv "$V"
  SP=$("$V/bin/python" -c "import sysconfig;print(sysconfig.get_paths()['purelib'])")
  printf '%s\n%s\n' "/venv/lib/python3.12/site-packages" "/repo/src" > "$SP/verif_overlay.pth"
  PIP_NO_INDEX=1 "$V/bin/pip" install -q --no-index --find-links /opt/veriftools/wheels crosshair-tool z3-solver
fi
"$V/bin/python" -c "import crosshair, z3, greenlet, mwlib, qs; print('overlay ok', crosshair.__version__ if hasattr(crosshair,'__version__') else '', z3.get_version_string(), mwlib.__file__)"
